"""Check driver: runs a property's rules, applies known findings, writes evidence."""
import importlib
import json
import os
import sys
import time
import traceback

from . import build, facts
from .build import AnalysisBroken, VERIF

PROPS = ["C%02d" % i for i in range(1, 21)]


class Report:
    def __init__(self, prop, tier, variant="default"):
        self.prop = prop
        self.tier = tier
        self.variant = variant
        self.obligations = []      # dicts: rule, instance, ok, detail, loc
        self.violations = []       # dicts: rule, site, msg, loc, trace
        self.notes = []
        self.skipped = []          # rules not applicable in this configuration
        self.instances = {}        # rule -> count of matched real sites
        self.broken = []           # rules that could not be evaluated (anchor / instances missing, internal error)
        self._seen = {}

    # -- recording ---------------------------------------------------------
    def ob(self, rule, instance, ok, detail="", loc="", site=None, trace=None):
        """Record one evaluated obligation.  `site` is the stable signature used to
        match known findings (function + construct, never a line number)."""
        key = (rule, instance)
        prev = self._seen.get(key)
        if prev is not None:
            # the same obligation reached again (e.g. on another path): keep one record, failure wins
            if ok or not prev["ok"]:
                return ok
            prev["ok"] = False
            prev["detail"] = detail
            prev["loc"] = loc
        else:
            rec = {"rule": rule, "instance": instance, "ok": bool(ok),
                   "detail": detail, "loc": loc, "variant": self.variant}
            self._seen[key] = rec
            self.obligations.append(rec)
            self.instances[rule] = self.instances.get(rule, 0) + 1
        if not ok:
            self.violations.append({"rule": rule, "site": site or instance, "msg": detail,
                                    "loc": loc, "trace": trace or [], "variant": self.variant})
        return ok

    def need(self, cond, msg):
        """An anchor or rule instance the rule relies on must exist; otherwise the
        analysis is broken (exit 2), never a pass and never a violation."""
        if not cond:
            if self.violations:
                # an obligation already failed on this report: that finding stands; the missing instances are
                # most likely its consequence
                self.notes.append("instances missing after a failed obligation: %s" % msg)
                return
            raise AnalysisBroken("[%s] %s" % (self.prop, msg))

    def min_instances(self, rule, n):
        got = self.instances.get(rule, 0)
        if got < n and self.violations:
            self.notes.append("[%s.%s] only %d rule instances matched after a failed obligation" % (self.prop, rule, got))
            return
        if got < n:
            raise AnalysisBroken("[%s.%s] only %d rule instances matched, %d confirmed by hand "
                                 "(variant %s)" % (self.prop, rule, got, n, self.variant))

    def skip(self, rule, why):
        self.skipped.append({"rule": rule, "why": why, "variant": self.variant})

    def note(self, s):
        self.notes.append(s)


def _guard(fn):
    """A rule that cannot be evaluated (vanished anchor, too few instances, internal error on code it does not
    understand) must not keep the other rules of the property from being evaluated: the failure is recorded on the
    report and decided at the end (violations found elsewhere are reported; otherwise the check is ANALYSIS-BROKEN)."""
    if getattr(fn, "_guarded", False):
        return fn

    def w(P, rep, *a, **kw):
        try:
            return fn(P, rep, *a, **kw)
        except AnalysisBroken as e:
            rep.broken.append(str(e))
        except Exception as e:     # noqa: BLE001 -- any crash of a rule on unfamiliar code
            tb = traceback.extract_tb(sys.exc_info()[2])
            where = "%s:%d" % (os.path.basename(tb[-1].filename), tb[-1].lineno) if tb else "?"
            rep.broken.append("internal error in %s (%s at %s)" % (fn.__name__, repr(e)[:120], where))
    w._guarded = True
    w.__name__ = getattr(fn, "__name__", "rule")
    w.__doc__ = getattr(fn, "__doc__", None)
    return w


def _guard_rules():
    for pid in PROPS:
        importlib.import_module("rules." + pid)
    for name, m in list(sys.modules.items()):
        if not name.startswith("rules.") or m is None:
            continue
        for attr in dir(m):
            if attr.startswith("rule_") or attr.startswith("rules_asm"):
                f = getattr(m, attr)
                if callable(f) and getattr(f, "__module__", "").startswith("rules."):
                    setattr(m, attr, _guard(f))


def load_known():
    p = os.path.join(VERIF, "known_findings.json")
    if not os.path.exists(p):
        return []
    return json.load(open(p))["findings"]


def run_property(prop, tier, repo=None, variants=None, verbose=True, replay=None):
    t0 = time.time()
    repo = repo or build.REPO
    mod = importlib.import_module("rules." + prop)
    _guard_rules()
    if variants is None:
        # QUICK_VARIANTS: configurations whose code the default build compiles out although the property
        # is mostly about that code (e.g. the fallback execution-stream barrier)
        variants = ["default"] + [v for v in getattr(mod, "QUICK_VARIANTS", [])]
        if tier == "thorough":
            variants = ["default"] + [v for v in getattr(mod, "VARIANTS", [])]
    reports = []
    stats = {}
    for v in variants:
        d, units, fresh = build.extract(repo, v)
        P = facts.Program(d)
        P.repo = repo
        P.variant = v
        rep = Report(prop, tier, v)
        try:
            mod.run(P, rep, tier)
        except AnalysisBroken as e:
            rep.broken.append(str(e))
        if rep.broken:
            if not rep.violations:
                raise AnalysisBroken("; ".join(rep.broken)[:1500])
            for b in rep.broken:
                rep.note("rule not evaluated: %s" % b)
                print("note: rule not evaluated: %s (violations found by other rules are reported)" % b[:300])
        reports.append(rep)
        stats[v] = P.stats()
        if repo != build.REPO and not os.environ.get("VERIF_KEEP_CACHE"):
            import shutil
            shutil.rmtree(d, ignore_errors=True)   # scratch copies leave no cache behind
            tagdir = os.path.dirname(d)
            try:
                if all(f.endswith(".lock") for f in os.listdir(tagdir)):
                    for f in os.listdir(tagdir):
                        os.unlink(os.path.join(tagdir, f))
                    os.rmdir(tagdir)
            except OSError:
                pass
    return finish(prop, tier, mod, reports, stats, t0, repo, verbose)


def finish(prop, tier, mod, reports, stats, t0, repo, verbose):
    known = [k for k in load_known() if k["property"] == prop]
    obligations = [o for r in reports for o in r.obligations]
    violations = [v for r in reports for v in r.violations]
    # de-duplicate violations across variants by (rule, site)
    uniq = {}
    for v in violations:
        uniq.setdefault((v["rule"], v["site"]), v)
    new, listed = [], []
    for (rule, site), v in sorted(uniq.items()):
        k = next((k for k in known if k["rule"] == rule and k["site"] == site and k["status"] == "known"), None)
        (listed if k else new).append((v, k))
    out = []
    for v, k in listed:
        out.append("KNOWN-FINDING: property=%s %s [%s.%s at %s] %s" %
                   (prop, k["what"], prop, v["rule"], v["loc"], v["msg"]))
    os.makedirs(os.path.join(VERIF, "replays"), exist_ok=True)
    for v, _ in new:
        rp = os.path.join(VERIF, "replays", "%s.%s.%s.json" %
                          (prop, v["rule"], "".join(c if c.isalnum() or c in "._-" else "_" for c in v["site"])[:120]))
        with open(rp, "w") as f:
            json.dump({"property": prop, "rule": v["rule"], "site": v["site"], "loc": v["loc"],
                       "message": v["msg"], "trace": v["trace"], "variant": v["variant"], "repo": repo}, f, indent=1)
        out.append("%s [%s.%s] %s" % (v["loc"], prop, v["rule"], v["msg"]))
        out.append("VIOLATION property=%s replay=%s" % (prop, rp))
    n_ob = len(obligations)
    n_ok = sum(1 for o in obligations if o["ok"])
    distinct = len(set((o["rule"], o["instance"]) for o in obligations))
    samples = []
    seen_rules = set()
    for o in obligations:
        if o["rule"] not in seen_rules or len(samples) < 12:
            if sum(1 for s in samples if s["rule"] == o["rule"]) < 2:
                samples.append({k: o[k] for k in ("rule", "instance", "ok", "detail", "loc", "variant")})
                seen_rules.add(o["rule"])
    per_rule = {}
    for o in obligations:
        d = per_rule.setdefault(o["rule"], {"evaluated": 0, "discharged": 0})
        d["evaluated"] += 1
        d["discharged"] += int(o["ok"])
    ev = {
        "property_id": prop,
        "tier": tier,
        "seed": int(os.environ.get("VERIF_SEED", "0") or 0),
        "level": "other",
        "coverage": {
            "explanation": getattr(mod, "EXPLANATION", ""),
            "obligations": n_ob,
            "discharged": n_ok,
            "evaluations": n_ob,
            "distinct_nontrivial": distinct,
            "rule": "one evaluation per (rule, instance, configuration); an instance is a concrete site "
                    "(function, call site, store, path) of /repo matched by a rule; distinct = distinct "
                    "(rule, instance) pairs; rules that match no site abort the check (exit 2)",
            "samples": samples,
            "per_rule": per_rule,
            "rules": getattr(mod, "RULES_DOC", {}),
            "declined_clauses": getattr(mod, "DECLINED", []),
            "configs": [r.variant for r in reports],
            "program": stats,
            "skipped": [s for r in reports for s in r.skipped],
            "known_findings_reported": [v["site"] for v, _ in listed],
            "checker_cmd": "./check %s --tier %s" % (prop, tier),
            "trusted_base": ["clang 14 front end and clang::CFG builder", "tools/abtfacts.cc extractor",
                             "abtverif engine (dominators, typestate simulation)",
                             "primitive tables in abtverif/tables.py (each summary is itself checked)"],
            "exhaustive": True,
            "repo": repo,
        },
        "assumptions": getattr(mod, "ASSUMPTIONS", []),
        "wall_s": round(time.time() - t0, 3),
        "violations": len(new),
    }
    if repo == build.REPO:
        os.makedirs(os.path.join(VERIF, "evidence"), exist_ok=True)
        with open(os.path.join(VERIF, "evidence", prop + ".json"), "w") as f:
            json.dump(ev, f, indent=1)
    if verbose:
        for r in reports:
            print("[%s %s/%s] %d obligations evaluated, %d discharged; analysed: %s" % (
                prop, tier, r.variant, len(r.obligations), sum(1 for o in r.obligations if o["ok"]),
                json.dumps(stats[r.variant])))
        for rule, d in sorted(per_rule.items()):
            print("   %-8s %3d/%3d  %s" % (rule, d["discharged"], d["evaluated"],
                                           getattr(mod, "RULES_DOC", {}).get(rule, "")[:110]))
    for line in out:
        print(line)
    return 1 if new else 0


def main(argv):
    import argparse
    ap = argparse.ArgumentParser()
    ap.add_argument("prop")
    ap.add_argument("--tier", default=os.environ.get("VERIF_TIER", "quick"))
    ap.add_argument("--repo", default=None)
    ap.add_argument("--replay", default=None)
    ap.add_argument("--variant", default=None)
    a = ap.parse_args(argv)
    sys.path.insert(0, VERIF)
    try:
        if a.replay:
            r = json.load(open(a.replay))
            rc = run_property(r["property"], "quick", repo=a.repo or r.get("repo"),
                              variants=[r.get("variant", "default")])
            return rc
        return run_property(a.prop, a.tier, repo=a.repo,
                            variants=[a.variant] if a.variant else None)
    except AnalysisBroken as e:
        print("ANALYSIS-BROKEN property=%s: %s" % (a.prop, e))
        return 2
    except Exception:
        traceback.print_exc()
        print("ANALYSIS-BROKEN property=%s: internal error" % a.prop)
        return 2


if __name__ == "__main__":
    sys.exit(main(sys.argv[1:]))
