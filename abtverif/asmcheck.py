"""Abstract interpreter for the straight-line x86-64 (AT&T) context-switch routines.

Abstract state: symbolic register file, RSP as (base, offset) with a residue
mod 16, and a symbolic stack.  Nothing is executed; every routine is a single
basic block (any branch instruction is reported as 'not analysable')."""
import re

CALLEE_SAVED = ["rbx", "rbp", "r12", "r13", "r14", "r15"]
ARG_REGS = ["rdi", "rsi", "rdx", "rcx", "r8", "r9"]
CALLER_SAVED = ["rax", "rcx", "rdx", "rsi", "rdi", "r8", "r9", "r10", "r11"]


class AsmError(Exception):
    pass


def split_routines(text):
    routines = {}
    cur = None
    for raw in text.splitlines():
        line = raw.split("#")[0].strip()
        if not line:
            continue
        m = re.match(r"^([A-Za-z_][A-Za-z0-9_]*):$", line)
        if m:
            cur = m.group(1)
            routines[cur] = []
            continue
        if line.startswith("."):
            if line.startswith(".size"):
                cur = None
            continue
        if cur is not None:
            routines[cur].append(line)
    return routines


class State:
    def __init__(self, params):
        self.regs = {}
        for r in ["rax", "rbx", "rcx", "rdx", "rsi", "rdi", "rbp", "r8", "r9", "r10", "r11", "r12", "r13", "r14", "r15"]:
            self.regs[r] = "in:" + r
        for r, p in zip(ARG_REGS, params):
            self.regs[r] = "arg:" + p
        self.base = "OLD"           # stack the routine was entered on
        self.off = 0                # rsp = base + off
        self.mod16 = {"OLD": 8}     # residue of (base + 0) mod 16: entry rsp == 8 (mod 16) by the ABI
        self.mem = {("OLD", 0): "retaddr"}
        self.events = []            # ordered log of notable events
        self.aligned = set()        # symbolic values known to be 16-byte aligned
        self.fpu_loaded = {}        # 'mxcsr'/'x87cw' -> (base, off) loaded from

    def rsp_mod16(self):
        m = self.mod16.get(self.base)
        return None if m is None else (m + self.off) % 16


def _mem_operand(op):
    m = re.match(r"^(-?(?:0x)?[0-9a-fA-F]*)\(%([a-z0-9]+)\)$", op)
    if not m:
        return None
    off = m.group(1)
    off = int(off, 0) if off not in ("", "-") else 0
    return off, m.group(2)


def interpret(name, lines, params, saved_layout=None):
    """Run one routine.  `saved_layout` (offset -> tag) describes the frame found on a
    stack loaded from a context (established from the saving routines)."""
    st = State(params)
    for ln in lines:
        parts = ln.split(None, 1)
        op = parts[0]
        args = [a.strip() for a in parts[1].split(",")] if len(parts) > 1 else []
        if op == "pushq":
            r = args[0].lstrip("%")
            st.off -= 8
            st.mem[(st.base, st.off)] = st.regs[r]
            st.events.append(("push", r, st.base, st.off))
        elif op == "popq":
            r = args[0].lstrip("%")
            v = st.mem.get((st.base, st.off))
            if v is None and st.base.startswith("CTX:") and saved_layout is not None:
                v = saved_layout.get(st.off)
                v = ("saved:" + v) if v else None
            st.regs[r] = v if v is not None else "unknown"
            st.events.append(("pop", r, st.base, st.off, st.regs[r]))
            st.off += 8
        elif op == "leaq":
            src = _mem_operand(args[0])
            dst = args[1].lstrip("%")
            if src is None:
                raise AsmError("%s: unsupported leaq %s" % (name, ln))
            off, breg = src
            if breg == "rsp" and dst == "rsp":
                st.off += off
            elif dst == "rsp":
                v = st.regs[breg]
                st.base = "TOP:" + v
                st.off = off
                st.mod16[st.base] = 0 if v in st.aligned else None
                st.events.append(("rsp<-", v, off))
            else:
                raise AsmError("%s: unsupported leaq %s" % (name, ln))
        elif op in ("stmxcsr", "fnstcw"):
            off, breg = _mem_operand(args[0])
            if breg != "rsp":
                raise AsmError("%s: %s not relative to rsp" % (name, op))
            st.mem[(st.base, st.off + off)] = "mxcsr" if op == "stmxcsr" else "x87cw"
            st.events.append(("fpu-save", op, st.base, st.off + off))
        elif op in ("ldmxcsr", "fldcw"):
            off, breg = _mem_operand(args[0])
            if breg != "rsp":
                raise AsmError("%s: %s not relative to rsp" % (name, op))
            v = st.mem.get((st.base, st.off + off))
            if v is None and st.base.startswith("CTX:") and saved_layout is not None:
                v = saved_layout.get(st.off + off)
                v = ("saved:" + v) if v else None
            st.events.append(("fpu-load", op, st.base, st.off + off, v))
        elif op == "movq":
            s, d = args
            ms, md = _mem_operand(s), _mem_operand(d)
            if ms is None and md is None:
                sr, dr = s.lstrip("%"), d.lstrip("%")
                if sr == "rsp":
                    st.regs[dr] = "rsp@%s%+d" % (st.base, st.off)
                    st.events.append(("save-rsp-reg", dr, st.base, st.off))
                elif dr == "rsp":
                    v = st.regs[sr]
                    m = re.match(r"^rsp@(.+?)([+-]\d+)$", v)
                    if m:
                        st.base, st.off = m.group(1), int(m.group(2))
                    else:
                        st.base = "TOP:" + v
                        st.off = 0
                        st.mod16[st.base] = 0 if v in st.aligned else None
                    st.events.append(("rsp<-", v, 0))
                else:
                    st.regs[dr] = st.regs[sr]
            elif md is not None and s == "%rsp":
                off, breg = md
                st.events.append(("store-rsp", st.regs[breg], off, st.base, st.off,
                                  dict((k[1], v) for k, v in st.mem.items() if k[0] == st.base), st.rsp_mod16()))
            elif ms is not None and d == "%rsp":
                off, breg = ms
                v = st.regs[breg]
                st.base = "CTX:" + v
                st.off = 0
                st.mod16[st.base] = 0      # residue of a saved context, established by rule A4 on the savers
                st.events.append(("load-rsp", v, off))
            else:
                raise AsmError("%s: unsupported movq %s" % (name, ln))
        elif op == "andq":
            imm, r = args
            r = r.lstrip("%")
            if imm.strip() == "$-16":
                v = st.regs[r]
                nv = "align16(%s)" % v
                st.regs[r] = nv
                st.aligned.add(nv)
            else:
                raise AsmError("%s: unsupported andq %s" % (name, ln))
        elif op == "callq":
            tgt = args[0].lstrip("*%")
            st.events.append(("call", st.regs[tgt], st.regs["rdi"], st.base, st.off, st.rsp_mod16()))
            for r in CALLER_SAVED:
                st.regs[r] = "clobbered"
        elif op == "jmpq":
            tgt = args[0].lstrip("*%")
            st.events.append(("jmp", st.regs[tgt], dict(st.regs), st.base, st.off, st.rsp_mod16()))
        elif op in ("ret", "retq"):
            v = st.mem.get((st.base, st.off))
            st.events.append(("ret", v, dict(st.regs), st.base, st.off))
        else:
            raise AsmError("%s: unsupported instruction '%s'" % (name, ln))
    return st
