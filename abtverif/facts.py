"""In-memory view of the extracted facts: program, functions, CFGs, expressions."""
import json
import os

from .build import AnalysisBroken


class Node(dict):
    __slots__ = ()

    @property
    def k(self):
        return self.get("k")


class Block:
    __slots__ = ("id", "elems", "succs", "usuccs", "tk", "tc", "ts", "tl", "tm", "case",
                 "casename", "default", "label", "noret", "goto", "preds")

    def __init__(self, d):
        self.id = d["id"]
        self.elems = d["e"]
        self.succs = []
        self.usuccs = []   # successors pruned as unreachable (constant condition)
        for s in d["s"]:
            if s is None:
                self.succs.append(None)
            elif isinstance(s, dict):
                self.succs.append(None)
                self.usuccs.append(s["u"])
            else:
                self.succs.append(s)
        self.tk = d.get("tk")
        self.tc = d.get("tc")
        self.ts = d.get("ts")
        self.tl = d.get("tl")
        self.tm = d.get("tm", [])
        self.case = d.get("case")
        self.casename = d.get("casename")
        self.default = d.get("default")
        self.label = d.get("label")
        self.noret = bool(d.get("noret"))
        self.goto = d.get("goto")
        self.preds = []


class Function:
    def __init__(self, d, prog):
        self.prog = prog
        self.name = d["name"]
        self.file = d["file"]
        self.line = d["line"]
        self.endline = d["endline"]
        self.static = bool(d["static"])
        self.inline = bool(d["inline"])
        self.noreturn = bool(d["noreturn"])
        self.wur = bool(d["wur"])
        self.ret = d["ret"]
        self.params = d["params"]
        self.nodes = d.get("nodes") or []
        self.entry = d.get("entry")
        self.exit = d.get("exit")
        self.blocks = {}
        for b in d.get("blocks") or []:
            self.blocks[b["id"]] = Block(b)
        for b in self.blocks.values():
            for s in b.succs:
                if s is not None:
                    self.blocks[s].preds.append(b.id)
        self._parent = None
        self._render = {}

    @property
    def key(self):
        return "%s:%s" % (self.file, self.name)

    def __repr__(self):
        return "<fn %s>" % self.key

    # ---------------------------------------------------------- expressions
    def n(self, i):
        return self.nodes[i] if i is not None and i >= 0 else None

    def children(self, i):
        nd = self.nodes[i]
        k = nd.get("k")
        if k in ("mem",):
            out = [nd["b"]]
        elif k in ("un", "load", "cast", "clit", "dinit", "vaarg"):
            out = [nd["e"]]
        elif k == "bin":
            out = [nd["lh"], nd["rh"]]
        elif k == "cond":
            out = [nd["c"], nd["th"], nd["el"]]
        elif k == "call":
            out = ([nd["fe"]] if "fe" in nd else []) + list(nd["a"])
        elif k == "atomic":
            out = list(nd["a"])
        elif k == "idx":
            out = [nd["b"], nd["i"]]
        elif k == "decl":
            out = [v["init"] for v in nd["vars"] if "init" in v]
        elif k == "ret":
            out = [nd["e"]] if "e" in nd else []
        elif k == "ilist":
            out = list(nd["e"])
        elif k == "other":
            out = list(nd.get("ch", []))
        else:
            out = []
        return [c for c in out if c is not None and c >= 0]

    def live_nodes(self):
        """Node ids reachable from the CFG elements and terminators (a spliced-out call of a flattened helper
        stays in the node table but is not part of the function any more)."""
        live = set()
        st = []
        for b in self.blocks.values():
            st.extend(b.elems)
            if b.tc is not None and b.tc >= 0:
                st.append(b.tc)
        while st:
            x = st.pop()
            if x in live or x is None or x < 0 or self.nodes[x] is None:
                continue
            live.add(x)
            st.extend(self.children(x))
        return live

    def parent_map(self):
        if self._parent is None:
            pm = {}
            live = self.live_nodes() if self.blocks else set()
            for i in sorted(live):
                for c in self.children(i):
                    pm.setdefault(c, i)
            for i, nd in enumerate(self.nodes):
                if nd is None or i in live:
                    continue
                for c in self.children(i):
                    pm.setdefault(c, i)
            self._parent = pm
        return self._parent

    def descendants(self, i):
        out = []
        st = [i]
        while st:
            x = st.pop()
            out.append(x)
            st.extend(self.children(x))
        return out

    def strip(self, i, casts=True, loads=True):
        """Skip load / explicit-cast wrappers."""
        while i is not None and i >= 0:
            nd = self.nodes[i]
            k = nd.get("k")
            if loads and k == "load":
                i = nd["e"]
            elif casts and k == "cast":
                i = nd["e"]
            else:
                break
        return i

    def render(self, i):
        """C-like canonical text of an expression (macros/parens/implicit casts gone)."""
        if i is None or i < 0:
            return ""
        r = self._render.get(i)
        if r is not None:
            return r
        nd = self.nodes[i]
        k = nd.get("k")
        R = self.render
        if k == "ref":
            s = nd["n"]
        elif k == "int":
            s = str(nd.get("cv", "?"))
        elif k == "float":
            s = nd["v"]
        elif k == "str":
            s = json.dumps(nd["v"])
        elif k == "mem":
            s = "%s%s%s" % (R(nd["b"]), "->" if nd["arrow"] else ".", nd["f"])
        elif k == "un":
            op = nd["op"]
            if op.startswith("post"):
                s = "%s%s" % (R(nd["e"]), op[4:])
            elif op.startswith("pre"):
                s = "%s%s" % (op[3:], R(nd["e"]))
            else:
                inner = R(nd["e"])
                ck = self.nodes[self.strip(nd["e"])].get("k")
                if ck in ("bin", "cond"):
                    inner = "(" + inner + ")"
                s = op + inner
        elif k == "bin":
            def sub(j):
                t = R(j)
                if self.nodes[self.strip(j)].get("k") in ("bin", "cond"):
                    t = "(" + t + ")"
                return t
            s = "%s %s %s" % (sub(nd["lh"]), nd["op"], sub(nd["rh"]))
        elif k == "cond":
            s = "%s ? %s : %s" % (R(nd["c"]), R(nd["th"]), R(nd["el"]))
        elif k == "call":
            fn = nd.get("fn") or ("(*%s)" % R(nd["fe"]))
            s = "%s(%s)" % (fn, ", ".join(R(a) for a in nd["a"]))
        elif k == "load":
            s = R(nd["e"])
        elif k == "cast":
            s = "(%s)%s" % (nd["t"], R(nd["e"]))
        elif k == "idx":
            s = "%s[%s]" % (R(nd["b"]), R(nd["i"]))
        elif k == "sizeof":
            s = "sizeof(%s)" % nd.get("t", "")
        elif k == "decl":
            s = "; ".join("%s %s%s" % (v["t"], v["n"], (" = " + R(v["init"])) if "init" in v else "")
                          for v in nd["vars"])
        elif k == "ret":
            s = "return %s" % R(nd.get("e", -1))
        elif k == "ilist":
            s = "{%s}" % ", ".join(R(a) for a in nd["e"])
        elif k == "atomic":
            s = "__atomic#%s(%s)" % (nd["op"], ", ".join(R(a) for a in nd["a"]))
        elif k == "clit":
            s = R(nd["e"])
        else:
            s = "<%s>" % k
        self._render[i] = s
        return s

    def fieldpath(self, i):
        """Variable-name independent access path: 'ABTI_barrier::lock' (record::field
        chain); for plain variables 'var:<name>'.  '&' and '*' are kept as prefixes."""
        i = self.strip(i)
        if i is None or i < 0:
            return ""
        nd = self.nodes[i]
        k = nd.get("k")
        if k == "mem":
            base = self.strip(nd["b"])
            bn = self.nodes[base]
            if bn.get("k") == "mem":
                return self.fieldpath(base) + "." + nd["f"]
            return "%s::%s" % (nd["r"], nd["f"])
        if k == "un" and nd["op"] in ("&", "*"):
            return nd["op"] + self.fieldpath(nd["e"])
        if k == "idx":
            return self.fieldpath(nd["b"]) + "[]"
        if k == "ref":
            return "var:" + nd["n"]
        return self.render(i)

    def field_of(self, i):
        """(record, field) of the outermost member access of node i (through &, load, cast)."""
        i = self.strip(i)
        if i is None or i < 0:
            return None
        nd = self.nodes[i]
        if nd.get("k") == "un" and nd["op"] == "&":
            return self.field_of(nd["e"])
        if nd.get("k") == "mem":
            return (nd["r"], nd["f"])
        if nd.get("k") == "idx":
            return self.field_of(nd["b"])
        if nd.get("k") == "ref" and nd.get("dk") == "var":
            # a local that only holds the address of a sub-object (`p = &obj->field`)
            from . import seq
            j = seq._through_pointer_temp(self, i)
            if j != i and self.strip(j) != i:
                return self.field_of(j)
        return None

    def base_var(self, i):
        """Name of the variable an access path is rooted at (or None)."""
        i = self.strip(i)
        while i is not None and i >= 0:
            nd = self.nodes[i]
            k = nd.get("k")
            if k == "ref":
                return nd["n"]
            if k == "mem":
                i = self.strip(nd["b"])
            elif k == "un" and nd["op"] in ("&", "*"):
                i = self.strip(nd["e"])
            elif k == "idx":
                i = self.strip(nd["b"])
            else:
                return None
        return None

    def vars_in(self, i):
        return set(self.nodes[j]["n"] for j in self.descendants(i)
                   if self.nodes[j].get("k") == "ref" and self.nodes[j].get("dk") in ("var", "param", "global"))

    def var_defs(self, var):
        """rhs node ids of every plain definition of local `var` (decl init, `=`); None marks
        a definition whose value is unknown (op=, ++, address passed to a call)."""
        out = []
        for bid, i in self.all_events():
            nd = self.nodes[i]
            k = nd.get("k")
            if k == "decl":
                out.extend(v["init"] for v in nd["vars"] if v["n"] == var and "init" in v)
            elif k == "bin" and nd.get("asg"):
                ln = self.nodes[self.strip(nd["lh"])]
                if ln.get("k") == "ref" and ln["n"] == var:
                    out.append(nd["rh"] if nd["op"] == "=" else None)
            elif k == "un" and nd["op"] in ("post++", "post--", "pre++", "pre--"):
                en = self.nodes[self.strip(nd["e"])]
                if en.get("k") == "ref" and en["n"] == var:
                    out.append(None)
            elif k == "call":
                for a in nd["a"]:
                    an = self.nodes[self.strip(a)]
                    if an.get("k") == "un" and an["op"] == "&":
                        inner = self.nodes[self.strip(an["e"])]
                        if inner.get("k") == "ref" and inner["n"] == var:
                            out.append(None)
        return out

    def func_values(self, i, _depth=0):
        """Set of function names expression i may denote (a function designator, or a local that
        is only ever assigned function designators); None if that cannot be established."""
        nd = self.nodes[self.strip(i)]
        if nd.get("k") == "ref" and nd.get("dk") == "func":
            return {nd["n"]}
        if nd.get("k") == "cond" and _depth < 3:
            a, b = self.func_values(nd["th"], _depth + 1), self.func_values(nd["el"], _depth + 1)
            return None if a is None or b is None else a | b
        if nd.get("k") == "ref" and nd.get("dk") == "var" and _depth < 3:
            ds = self.var_defs(nd["n"])
            if not ds or any(d is None for d in ds):
                return None
            out = set()
            for d in ds:
                v = self.func_values(d, _depth + 1)
                if v is None:
                    return None
                out |= v
            return out
        return None

    def has_call(self, i):
        return any(self.nodes[j].get("k") in ("call", "asm", "atomic") for j in self.descendants(i))

    # ---------------------------------------------------------- events
    def block_events(self, bid):
        """Evaluation-ordered 'interesting' nodes of a block: calls, assignments,
        inc/dec, decl-with-init, returns."""
        out = []
        for i in self.blocks[bid].elems:
            nd = self.nodes[i]
            k = nd.get("k")
            if k in ("call", "ret", "asm", "atomic"):
                out.append(i)
            elif k == "bin" and nd.get("asg"):
                out.append(i)
            elif k == "un" and nd["op"] in ("post++", "post--", "pre++", "pre--"):
                out.append(i)
            elif k == "decl":
                out.append(i)
        return out

    def all_events(self):
        for bid in self.blocks:
            for i in self.block_events(bid):
                yield bid, i

    def calls(self, name=None):
        """[(block id, node id)] of calls (optionally to `name`, direct callee)."""
        out = []
        for bid, b in self.blocks.items():
            for i in b.elems:
                nd = self.nodes[i]
                if nd.get("k") == "call" and (name is None or nd.get("fn") == name or
                                               (isinstance(name, (set, frozenset, tuple, list)) and nd.get("fn") in name)):
                    out.append((bid, i))
        return out

    def stores(self):
        """[(bid, node id, lhs id, rhs id or None)] for =, op=, ++/--, and decl inits."""
        out = []
        for bid, b in self.blocks.items():
            for i in b.elems:
                nd = self.nodes[i]
                k = nd.get("k")
                if k == "bin" and nd.get("asg"):
                    out.append((bid, i, nd["lh"], nd["rh"]))
                elif k == "un" and nd["op"] in ("post++", "post--", "pre++", "pre--"):
                    out.append((bid, i, nd["e"], None))
        return out

    def pos(self, bid, i):
        return self.blocks[bid].elems.index(i)

    def loc(self, i):
        return "%s:%s" % (self.file, self.nodes[i]["l"]) if i is not None and i >= 0 else self.file

    def block_of(self, i):
        for bid, b in self.blocks.items():
            if i in b.elems:
                return bid
        return None


class Program:
    def __init__(self, factsdir, units=None):
        self.dir = factsdir
        self.functions = {}      # key -> Function
        self.by_name = {}        # name -> [Function]
        self.protos = {}
        self.globals = {}
        self.records = {}
        self.file_records = {}     # (defining file, tag) -> record: file-local structs may share a tag
        self.enums = {}
        self.enum_consts = {}
        self.units = []
        self.asm_path = None
        self.asm_text = None
        for fn in sorted(os.listdir(factsdir)):
            if not fn.endswith(".json"):
                continue
            with open(os.path.join(factsdir, fn)) as f:
                d = json.load(f)
            self.units.append(d["unit"])
            for fd in d["functions"]:
                F = Function(fd, self)
                if F.key in self.functions:
                    continue
                self.functions[F.key] = F
                self.by_name.setdefault(F.name, []).append(F)
            for p in d["protos"]:
                self.protos.setdefault(p["name"], p)
            for g in d["globals"]:
                cur = self.globals.get((g["file"], g["name"]))
                if cur is None or ("init" in g and "init" not in cur):
                    self.globals[(g["file"], g["name"])] = g
            for r in d["records"]:
                self.records.setdefault(r["name"], r)
                self.file_records.setdefault((r.get("file"), r["name"]), r)
            for e in d["enums"]:
                self.enums.setdefault((e["file"], e["name"], tuple(sorted(e["consts"]))), e)
                self.enum_consts.update(e["consts"])
        ap = os.path.join(factsdir, "asm.path")
        if os.path.exists(ap):
            self.asm_path = open(ap).read().strip()
            self.asm_text = open(os.path.join(factsdir, "asm.s")).read()
        self._callers = None
        self.inlined = {}
        if not os.environ.get("VERIF_NO_INLINE"):
            from . import inline
            inline.flatten(self)
        self.deref_temps = 0
        if not os.environ.get("VERIF_NO_NORMALIZE"):
            from . import normalize
            normalize.run(self)

    def flat(self, F):
        """View of F with the static helpers of its own file spliced in (abtverif/inline.py flat_copy)."""
        from . import inline
        return inline.flat_copy(self, F)

    def fn(self, name, file=None, required=True, flat=False):
        """Resolve a function by name (and optionally defining file).  A vanished
        anchor is an analysis failure, never a pass.  flat=True: the flattened view."""
        c = self.by_name.get(name, [])
        if file is not None:
            c = [f for f in c if f.file == file]
        if len(c) == 1:
            return self.flat(c[0]) if flat else c[0]
        if not c:
            if required:
                raise AnalysisBroken("anchor function %s%s not found in the parsed program"
                                     % (name, " in " + file if file else ""))
            return None
        raise AnalysisBroken("anchor function %s is ambiguous: %s" % (name, [f.key for f in c]))

    def fns(self, name):
        return self.by_name.get(name, [])

    def macro_int(self, name):
        """Integer value of an object-like macro of the public header abt.h (error codes
        are macros, not enumerators).  Table lookup only; None if absent."""
        if getattr(self, "_macros", None) is None:
            import re
            self._macros = {}
            repo = getattr(self, "repo", "/repo")
            for rel in ("src/include/abt.h",):
                try:
                    for line in open(os.path.join(repo, rel)):
                        m = re.match(r"#define\s+(ABT_[A-Z0-9_]+)\s+\(?(-?\d+)\)?\s*(/\*.*)?$", line.strip())
                        if m:
                            self._macros[m.group(1)] = int(m.group(2))
                except OSError:
                    pass
        return self._macros.get(name)

    def record(self, name):
        r = self.records.get(name)
        if r is None:
            raise AnalysisBroken("record %s not found" % name)
        return r

    def resolve_call(self, F, nd):
        """Direct callee Function of a call node seen in F (prefers same-file statics)."""
        name = nd.get("fn")
        if not name:
            return None
        c = self.by_name.get(name, [])
        if len(c) == 1:
            return c[0]
        for f in c:
            if f.file == F.file:
                return f
        nonstatic = [f for f in c if not f.static]
        if len(nonstatic) == 1:
            return nonstatic[0]
        return None

    def callers(self):
        """callee key -> set of (caller key)."""
        if self._callers is None:
            cg = {}
            for F in self.functions.values():
                for nd in F.nodes:
                    if nd and nd.get("k") == "call" and nd.get("fn"):
                        G = self.resolve_call(F, nd)
                        key = G.key if G else "ext:" + nd["fn"]
                        cg.setdefault(key, set()).add(F.key)
            self._callers = cg
        return self._callers

    def callgraph(self):
        """caller key -> set of callee keys (direct calls resolved to definitions)."""
        if getattr(self, "_cg", None) is None:
            cg = {}
            for F in self.functions.values():
                out = cg.setdefault(F.key, set())
                for nd in F.nodes:
                    if nd and nd.get("k") == "call" and nd.get("fn"):
                        G = self.resolve_call(F, nd)
                        if G is not None:
                            out.add(G.key)
            self._cg = cg
        return self._cg

    def direct_writers(self, rec, field):
        """Functions containing a plain or atomic store to rec::field."""
        out = set()
        for F in self.functions.values():
            for nd in F.nodes:
                if not nd:
                    continue
                k = nd.get("k")
                tgt = None
                if k == "bin" and nd.get("asg"):
                    tgt = nd["lh"]
                elif k == "un" and nd["op"] in ("post++", "post--", "pre++", "pre--"):
                    tgt = nd["e"]
                elif k == "call" and (nd.get("fn") or "").startswith("ABTD_atomic_") and "_load_" not in nd["fn"] and nd["a"]:
                    tgt = nd["a"][0]
                if tgt is not None and F.field_of(tgt) == (rec, field):
                    out.add(F.key)
        return out

    def may_write(self, rec, field):
        """Transitive closure: functions that may (through direct calls) store to rec::field."""
        key = (rec, field)
        cache = self.__dict__.setdefault("_maywrite", {})
        if key not in cache:
            cg = self.callgraph()
            w = set(self.direct_writers(rec, field))
            changed = True
            while changed:
                changed = False
                for f, callees in cg.items():
                    if f not in w and callees & w:
                        w.add(f)
                        changed = True
            cache[key] = w
        return cache[key]

    def call_chain(self, src_key, targets, limit=6):
        """A shortest call chain from src to any function in targets (for diagnostics)."""
        from collections import deque
        cg = self.callgraph()
        prev = {src_key: None}
        dq = deque([src_key])
        while dq:
            u = dq.popleft()
            if u in targets and u != src_key:
                path = []
                while u is not None:
                    path.append(u.split(":")[-1])
                    u = prev[u]
                return path[::-1]
            for v in cg.get(u, ()):
                if v not in prev:
                    prev[v] = u
                    dq.append(v)
        return []

    def stats(self):
        nb = sum(len(f.blocks) for f in self.functions.values())
        nc = sum(1 for f in self.functions.values() for nd in f.nodes if nd and nd.get("k") == "call")
        st = {"units": len(self.units), "functions": len(self.functions),
              "cfg_blocks": nb, "call_sites": nc}
        if self.inlined:
            # helpers outside the pinned vocabulary that were flattened into their callers
            st["flattened_helpers"] = {k: v for k, v in sorted(self.inlined.items())}
        return st
