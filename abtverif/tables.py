"""Frozen tables of this repository's primitives.  Every entry was confirmed by
reading the code; wrapper summaries are re-verified on the wrapper's body on
every run (locks.check_wrapper_summaries)."""

# function -> index of the lock argument
LOCK_ACQUIRE = {
    "ABTD_spinlock_acquire": 0,
    "pthread_mutex_lock": 0,
}
LOCK_RELEASE = {
    "ABTD_spinlock_release": 0,
    "pthread_mutex_unlock": 0,
}
# conditional acquire: lock held afterwards iff the call returned 0
LOCK_COND_ACQUIRE = {
    "ABTD_spinlock_try_acquire": 0,
    "thread_queue_acquire_spinlock_if_not_empty": 1,
}
# primitives of abtd_spinlock.h itself (checked by rule X2, not by the summary rule)
LOCK_PRIMITIVE_COND = {"ABTD_spinlock_try_acquire"}
# wrappers that must be entered with the lock held and return with it released
LOCK_RELEASE_TRANSFER = {
    "ABTI_waitlist_wait_and_unlock": 2,
    "ABTI_waitlist_wait_timedout_and_unlock": 2,
    "ABTI_ythread_suspend_unlock": 2,
    "ABTD_futex_wait_and_unlock": 1,
    "ABTD_futex_timedwait_and_unlock": 1,
}
# wrappers that may be compiled out in some configurations
OPTIONAL_WRAPPERS = {"ABTD_futex_wait_and_unlock", "ABTD_futex_timedwait_and_unlock"}
# release performed by the post-switch callback: wrapper -> (callback, arg record, field)
LOCK_RELEASE_VIA_CALLBACK = {
    "ABTI_ythread_suspend_unlock": ("ABTI_ythread_callback_suspend_unlock",
                                    "ABTI_ythread_callback_suspend_unlock_arg", "p_lock"),
}

# atomic wrappers: name -> required builtin memory order (rule X1)
MEMORDER = {"relaxed": 0, "consume": 1, "acquire": 2, "release": 3, "acq_rel": 4, "seq_cst": 5}
