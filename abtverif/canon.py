"""Name-independent, polarity-normalised rendering of expressions and branch conditions.

Rules must not depend on how a function names its locals or on which way round a test is
written.  `expr` renders an expression with
  * member accesses as `Record::field` (the base variable is dropped),
  * a local variable replaced by the expression it was last assigned from, when that
    is the only assignment reaching the use (reaching definitions over the CFG) -- `caller_id`
    and `self_id` both render as the call that produced them,
  * loads, casts and parentheses removed, integer constants by value, enumerators by name.
`cond` renders a branch-condition atom as (label, flip): `a != b` is labelled `a == b` with
the truth flipped, `x == 0` / `!x` are labelled `x` flipped, `a > b` becomes `b < a`, `a >= b`
becomes `a < b` flipped, the constant operand goes to the right and otherwise operands of a
symmetric operator are sorted.
"""



def _posmap(F):
    pm = getattr(F, "_posmap", None)
    if pm is None:
        pm = {}
        for bid, b in F.blocks.items():
            for k, i in enumerate(b.elems):
                pm.setdefault(i, (bid, k))
        F._posmap = pm
    return pm


def _assigned_var(F, nd):
    """[(var, rhs node or None)] written by event node nd (None rhs = value unknown)."""
    k = nd.get("k")
    out = []
    if k == "decl":
        for v in nd["vars"]:
            out.append((v["n"], v.get("init")))
    elif k == "bin" and nd.get("asg"):
        ln = F.nodes[F.strip(nd["lh"])]
        if ln.get("k") == "ref":
            out.append((ln["n"], nd["rh"] if nd["op"] == "=" else None))
    elif k == "un" and nd["op"] in ("post++", "post--", "pre++", "pre--"):
        en = F.nodes[F.strip(nd["e"])]
        if en.get("k") == "ref":
            out.append((en["n"], ("inc", nd["e"], 1 if nd["op"].endswith("++") else -1)))
    elif k == "call":
        for a in nd.get("a", ()):
            an = F.nodes[F.strip(a)]
            if an.get("k") == "un" and an["op"] == "&":
                inner = F.nodes[F.strip(an["e"])]
                if inner.get("k") == "ref":
                    out.append((inner["n"], None))
    return out


def reaching_def(F, var, at):
    """rhs node of the single assignment to local `var` that reaches node `at` (all
    backward paths end in the same assignment), or None."""
    pm = _posmap(F)
    p = pm.get(at)
    if p is None:
        # `at` may be a sub-expression that is not a CFG element: use its first ancestor that is
        par = F.parent_map()
        x = at
        hops = 0
        while x in par and x not in pm and hops < 50:
            x = par[x]
            hops += 1
        p = pm.get(x)
        if p is None:
            return None
    bid, k = p
    cache = F.__dict__.setdefault("_rdef", {})
    key = (var, bid, k)
    if key in cache:
        return cache[key]
    # backward search over all predecessors: the definitions that reach this point
    found = set()
    seen = set()
    work = [(bid, k)]
    while work and len(found) < 4:
        b, upto = work.pop()
        elems = F.blocks[b].elems
        hit = False
        for j in range((len(elems) if upto is None else upto) - 1, -1, -1):
            for v, rhs in _assigned_var(F, F.nodes[elems[j]]):
                if v == var:
                    found.add(rhs if rhs is not None else -1)
                    hit = True
                    break
            if hit:
                break
        if hit:
            continue
        if b == F.entry:
            found.add(-2)       # reaches the entry undefined (or a parameter)
            continue
        if not F.blocks[b].preds:
            continue            # unreachable block (pruned do-while(0) back edge)
        for pb in F.blocks[b].preds:
            if pb not in seen:
                seen.add(pb)
                work.append((pb, None))
    r = None
    if len(found) == 1:
        (x,) = found
        r = x if (isinstance(x, tuple) or x >= 0) else None
    cache[key] = r
    F.__dict__.setdefault("_rdefs", {})[key] = found
    return r


def reaching_defs(F, var, at):
    """All assignments of `var` reaching `at` when there are 2..3 of them and every one is a
    plain `var = expr` (the value is one of the alternatives); else None."""
    reaching_def(F, var, at)
    pm = _posmap(F)
    p = pm.get(at)
    if p is None:
        par = F.parent_map()
        x = at
        hops = 0
        while x in par and x not in pm and hops < 50:
            x = par[x]
            hops += 1
        p = pm.get(x)
    if p is None:
        return None
    found = F.__dict__.get("_rdefs", {}).get((var, p[0], p[1]))
    if not found or not (2 <= len(found) <= 3) or not all(isinstance(x, int) and x >= 0 for x in found):
        return None
    return sorted(found)


def expr(F, i, depth=3, at=None, env=None):
    """env: {local: variable it copies on the current path} (from the path engine)."""
    at = i if at is None else at
    i = F.strip(i)
    if i is None or i < 0:
        return ""
    nd = F.nodes[i]
    k = nd.get("k")
    E = lambda j, d=depth: expr(F, j, d, at, env)
    if k == "ref":
        if env and nd["n"] in env:
            return env[nd["n"]]
        if nd.get("dk") == "var" and depth > 0:
            d = reaching_def(F, nd["n"], at)
            if isinstance(d, tuple):
                # x++ / x-- : the previous value plus/minus one
                return "%s %s 1" % (expr(F, d[1], depth - 1, d[1]), "+" if d[2] > 0 else "-")
            if d is not None:
                dn = F.nodes[F.strip(d)]
                if dn.get("k") not in ("ilist", "zero"):
                    return expr(F, d, depth - 1, d)
            ds = reaching_defs(F, nd["n"], at) if depth > 1 else None
            if ds:
                alts = sorted(set(expr(F, d, depth - 1, d) for d in ds))
                return alts[0] if len(alts) == 1 else "{" + " | ".join(alts) + "}"
        return nd["n"]
    if k == "int" or ("cv" in nd and k not in ("ref",)):
        return str(nd.get("cv"))
    if k == "mem":
        base = F.strip(nd["b"])
        bn = F.nodes[base]
        if bn.get("k") == "mem":
            return E(base) + "." + nd["f"]
        if bn.get("k") == "idx":
            return E(base) + "." + nd["f"]
        return "%s::%s" % (nd["r"], nd["f"])
    if k == "un":
        op = nd["op"]
        if op.startswith("post"):
            return E(nd["e"]) + op[4:]
        if op.startswith("pre"):
            return op[3:] + E(nd["e"])
        inner = E(nd["e"])
        if F.nodes[F.strip(nd["e"])].get("k") in ("bin", "cond"):
            inner = "(" + inner + ")"
        return op + inner
    if k == "bin":
        def sub(j):
            t = E(j)
            if F.nodes[F.strip(j)].get("k") in ("bin", "cond") and " " in t:
                t = "(" + t + ")"
            return t
        return "%s %s %s" % (sub(nd["lh"]), nd["op"], sub(nd["rh"]))
    if k == "call":
        fn = nd.get("fn") or ("(*%s)" % E(nd["fe"]))
        if fn in ("__builtin_expect", "ABTU_likely", "ABTU_unlikely") and nd["a"]:
            return E(nd["a"][0])
        return "%s(%s)" % (fn, ", ".join(E(a) for a in nd["a"]))
    if k == "idx":
        return "%s[%s]" % (E(nd["b"]), E(nd["i"]))
    if k == "cond":
        return "%s ? %s : %s" % (E(nd["c"]), E(nd["th"]), E(nd["el"]))
    if k == "sizeof":
        return "sizeof(%s)" % nd.get("t", "")
    if k == "atomic":
        return "__atomic#%s(%s)" % (nd["op"], ", ".join(E(a) for a in nd["a"]))
    return F.render(i)


def _is_const(F, i):
    nd = F.nodes[F.strip(i)]
    return ("cv" in nd and nd.get("k") != "ref") or (nd.get("k") == "ref" and nd.get("dk") == "enum")


def _is_zero(F, i):
    nd = F.nodes[F.strip(i)]
    return nd.get("cv") == 0 and nd.get("k") in ("int", "cast")


def cond(F, i):
    """(label, flip) for a condition atom (as produced by cfg.cond_atom: no leading `!`)."""
    flip = False
    while True:
        i = F.strip(i)
        nd = F.nodes[i]
        k = nd.get("k")
        if k == "un" and nd["op"] == "!":
            flip = not flip
            i = nd["e"]
            continue
        if k == "call" and nd.get("fn") in ("__builtin_expect", "ABTU_likely", "ABTU_unlikely") and nd.get("a"):
            i = nd["a"][0]
            continue
        # a local that merely holds an earlier comparison: look through it
        if k == "ref" and nd.get("dk") == "var":
            d = reaching_def(F, nd["n"], i)
            if isinstance(d, int):
                dn = F.nodes[F.strip(d)]
                if dn.get("k") == "bin" and dn["op"] in ("==", "!=", "<", ">", "<=", ">=", "&&", "||"):
                    i = d
                    continue
                if dn.get("k") == "cond" or (dn.get("k") == "un" and dn["op"] == "!"):
                    i = d
                    continue
        # `c ? TRUE : FALSE` is c; `c ? FALSE : TRUE` is !c
        if k == "cond":
            tv, ev = F.nodes[F.strip(nd["th"])].get("cv"), F.nodes[F.strip(nd["el"])].get("cv")
            if tv is not None and ev is not None and bool(tv) != bool(ev):
                if not tv:
                    flip = not flip
                i = nd["c"]
                continue
        break
    if k == "bin" and nd["op"] in ("==", "!="):
        if nd["op"] == "!=":
            flip = not flip
        lh, rh = nd["lh"], nd["rh"]
        for a, b in ((lh, rh), (rh, lh)):
            if _is_zero(F, b) and not _is_const(F, a):
                lab, f2 = cond(F, a)
                return lab, (not flip) != f2
        a, b = expr(F, lh, at=i), expr(F, rh, at=i)
        if _is_const(F, lh) and not _is_const(F, rh):
            a, b = b, a
        elif not _is_const(F, rh) and not _is_const(F, lh) and b < a:
            a, b = b, a
        return "%s == %s" % (a, b), flip
    if k == "bin" and nd["op"] in ("<", ">", "<=", ">="):
        a, b = expr(F, nd["lh"], at=i), expr(F, nd["rh"], at=i)
        op = nd["op"]
        if op == ">":
            a, b = b, a
        elif op == ">=":
            flip = not flip
        elif op == "<=":
            a, b = b, a
            flip = not flip
        return "%s < %s" % (a, b), flip
    return expr(F, i, at=i), flip


def rooted(F, i, depth=3, at=None):
    """Access path that keeps the identity of the object: `<root>-><f>.<g>` where the root is the
    parameter, or the `Record::field` a local pointer was loaded from (locals are resolved through
    their single reaching definition).  `p_prev->thread.p_pool` with `p_prev = p_arg->p_prev`
    and `p_arg = (T *)arg` renders as `arg->p_prev->thread.p_pool` whatever the locals are called."""
    at = i if at is None else at
    i = F.strip(i)
    if i is None or i < 0:
        return ""
    nd = F.nodes[i]
    k = nd.get("k")
    if k == "mem":
        b = rooted(F, nd["b"], depth, at)
        return "%s%s%s" % (b, "->" if nd["arrow"] else ".", nd["f"])
    if k == "un" and nd["op"] in ("&", "*"):
        return nd["op"] + rooted(F, nd["e"], depth, at)
    if k == "idx":
        return "%s[%s]" % (rooted(F, nd["b"], depth, at), expr(F, nd["i"], 1, at))
    if k == "ref":
        if nd.get("dk") == "var" and depth > 0:
            d = reaching_def(F, nd["n"], at)
            if isinstance(d, int):
                dn = F.nodes[F.strip(d)]
                if dn.get("k") in ("ref", "un", "idx", "mem"):
                    return rooted(F, d, depth - 1, d)
                if dn.get("k") == "call":
                    return expr(F, d, 1, d)
        return nd["n"]
    return expr(F, i, 1, at)
