"""Must-lockset typestate over the repository's own lock primitives."""
from .cfg import Typestate, simulate
from . import tables


def lock_key(F, arg):
    """Canonical identity of a lock argument inside one function: rendered text
    (variable names are stable within a function)."""
    return F.render(F.strip(arg))


class LockTS(Typestate):
    """State: (frozenset(held lock keys), frozenset(assumptions)).
    An assumption is (call node id, result_is_zero, var or None) for conditional
    acquisitions whose outcome is decided by a later branch."""

    def __init__(self, P, entry_held=()):
        self.P = P
        self.init = (frozenset(entry_held), frozenset())
        self.at = {}        # node id -> set of held-sets observed when the node executes
        self.exits = []     # (kind, ret node, held, ctx-consts snapshot, ret value)
        self.errors = []    # (node id, message)

    # -- helpers
    def _held(self, st):
        return st[0]

    def event(self, F, nid, st, ctx):
        held, asm = st
        nd = F.nodes[nid]
        k = nd.get("k")
        self.at.setdefault(nid, set()).add(held)
        if k == "call":
            fn = nd.get("fn")
            if fn in tables.LOCK_ACQUIRE:
                key = lock_key(F, nd["a"][tables.LOCK_ACQUIRE[fn]])
                if key in held:
                    self.errors.append((nid, "lock %s acquired while already held" % key))
                return (held | {key}, asm)
            if fn in tables.LOCK_RELEASE:
                key = lock_key(F, nd["a"][tables.LOCK_RELEASE[fn]])
                if key not in held:
                    self.errors.append((nid, "lock %s released while not held" % key))
                return (held - {key}, asm)
            if fn in tables.LOCK_RELEASE_TRANSFER:
                key = lock_key(F, nd["a"][tables.LOCK_RELEASE_TRANSFER[fn]])
                if key not in held:
                    self.errors.append((nid, "%s called without holding %s" % (fn, key)))
                return (held - {key}, asm)
            if fn in tables.LOCK_COND_ACQUIRE:
                argi = tables.LOCK_COND_ACQUIRE[fn]
                key = lock_key(F, nd["a"][argi])
                var = self._result_var(F, nid)
                asm2 = frozenset(a for a in asm if a[0] != nid)
                return {(held | {key}, asm2 | {(nid, True, var)}),
                        (held - {key}, asm2 | {(nid, False, var)})}
        elif k == "bin" and nd.get("asg"):
            ln = F.nodes[F.strip(nd["lh"])]
            if ln.get("k") == "ref":
                # variable overwritten by something other than the tracked call
                rh = F.strip(nd["rh"])
                asm = frozenset((c, z, (None if (v == ln["n"] and rh != c) else v)) for c, z, v in asm)
                return (held, asm)
        return st

    def _result_var(self, F, nid):
        pm = F.parent_map()
        p = pm.get(nid)
        while p is not None and F.nodes[p].get("k") in ("cast", "load"):
            p = pm.get(p)
        if p is None:
            return None
        pn = F.nodes[p]
        if pn.get("k") == "bin" and pn.get("asg") and pn["op"] == "=" and F.strip(pn["rh"]) == nid:
            ln = F.nodes[F.strip(pn["lh"])]
            if ln.get("k") == "ref":
                return ln["n"]
        if pn.get("k") == "decl":
            for v in pn["vars"]:
                if "init" in v and F.strip(v["init"]) == nid:
                    return v["n"]
        return None

    def edge(self, F, bid, key, truth, st, ctx):
        held, asm = st
        if not asm or ctx.cond_node is None:
            return st
        an = F.nodes[ctx.cond_node]
        aval = ctx.cond_val
        for (c, zero, var) in asm:
            rz = _result_zero(F, ctx.cond_node, aval, c, var)
            if rz is not None and rz != zero:
                return None      # infeasible: contradicts the assumed outcome
        return st

    def exit(self, F, kind, nid, st, ctx):
        held, asm = st
        rv = None
        if nid is not None and "e" in F.nodes[nid]:
            rv = ctx.value(F.nodes[nid]["e"])
            if rv is None:
                # `return call(...)` / `return var` of a tracked conditional acquire
                e = F.strip(F.nodes[nid]["e"])
                en = F.nodes[e]
                for (c, zero, var) in asm:
                    if e == c or (en.get("k") == "ref" and en["n"] == var):
                        rv = 0 if zero else "nonzero"
        self.exits.append((kind, nid, held, rv))


def _result_zero(F, atom, aval, call, var):
    """Given that condition atom `atom` evaluated to aval, is the result of `call`
    (possibly held in `var`) zero?  True / False / None (unrelated or unknown)."""
    def is_res(x):
        x = F.strip(x)
        if x == call:
            return True
        n = F.nodes[x]
        return var is not None and n.get("k") == "ref" and n["n"] == var
    an = F.nodes[atom]
    if is_res(atom):
        return not aval
    if an.get("k") == "bin" and an["op"] in ("==", "!="):
        for a, b in ((an["lh"], an["rh"]), (an["rh"], an["lh"])):
            if is_res(a) and "cv" in F.nodes[F.strip(b)]:
                c = F.nodes[F.strip(b)]["cv"]
                eq = aval if an["op"] == "==" else (not aval)
                if c == 0:
                    return eq
                if eq:
                    return False
                return None
    return None


def run_locks(P, F, entry_held=()):
    ts = LockTS(P, entry_held)
    simulate(F, ts)
    return ts


def check_wrapper_summaries(P, rep, rule="X3"):
    """Every lock summary in tables.py is an obligation on the wrapper's own body."""
    # conditional acquires: returns 0 only with the lock held, non-zero only without
    for fn, argi in sorted(tables.LOCK_COND_ACQUIRE.items()):
        if fn in tables.LOCK_PRIMITIVE_COND:
            continue        # decided by rule X2 on the atomic primitive itself
        Fs = P.fns(fn)
        rep.need(Fs, "lock wrapper %s vanished" % fn)
        F = Fs[0]
        pname = F.params[argi]["n"]
        ts = run_locks(P, F)
        ok = True
        why = []
        n_exits = 0
        for kind, nid, held, rv in ts.exits:
            if kind != "ret":
                continue
            n_exits += 1
            if rv == 0 and pname not in held:
                ok = False
                why.append("%s: returns 0 without holding %s" % (F.loc(nid), pname))
            if rv not in (0, None) and pname in held:
                ok = False
                why.append("%s: returns non-zero while holding %s" % (F.loc(nid), pname))
            if rv is None:
                ok = False
                why.append("%s: return value not a constant" % F.loc(nid))
        rep.need(n_exits > 0, "%s has no returning exit" % fn)
        rep.ob(rule, "%s: returns 0 iff it acquired its lock argument" % fn, ok, "; ".join(why),
               loc="%s:%d" % (F.file, F.line), site=fn)
    for table, held_after in ((tables.LOCK_RELEASE_TRANSFER, False),):
        for fn, argi in sorted(table.items()):
            Fs = P.fns(fn)
            if not Fs:
                if fn in tables.OPTIONAL_WRAPPERS:
                    continue
                rep.need(False, "lock wrapper %s vanished" % fn)
            F = Fs[0]
            pname = F.params[argi]["n"]
            if fn in tables.LOCK_RELEASE_VIA_CALLBACK:
                _check_callback_release(P, rep, rule, F, argi)
                continue
            ts = run_locks(P, F, entry_held=[pname])
            ok = True
            why = []
            n = 0
            for kind, nid, held, rv in ts.exits:
                if kind != "ret":
                    continue
                n += 1
                if pname in held:
                    ok = False
                    why.append("%s: returns still holding %s" % (F.loc(nid) if nid is not None else F.file, pname))
            for nid, msg in ts.errors:
                ok = False
                why.append("%s: %s" % (F.loc(nid), msg))
            rep.need(n > 0, "%s has no returning exit" % fn)
            rep.ob(rule, "%s: releases its lock argument on every path" % fn, ok, "; ".join(why),
                   loc="%s:%d" % (F.file, F.line), site=fn)


def _check_callback_release(P, rep, rule, F, argi):
    """The wrapper hands its lock to a post-switch callback through an argument
    struct; the callback must release exactly that field on every path."""
    cbname, recname, field = tables.LOCK_RELEASE_VIA_CALLBACK[F.name]
    pname = F.params[argi]["n"]
    rec = P.record(recname)
    fidx = [f["n"] for f in rec["fields"]].index(field)
    ok, why = False, []
    argvar = None
    for bid, nid in F.all_events():
        nd = F.nodes[nid]
        if nd.get("k") == "decl":
            for v in nd["vars"]:
                if recname in v["t"] and "init" in v:
                    il = F.nodes[F.strip(v["init"])]
                    if il.get("k") == "ilist" and len(il["e"]) > fidx and \
                            F.render(il["e"][fidx]) == pname:
                        argvar = v["n"]
    if argvar is None:
        why.append("no %s initialised with %s in field %s" % (recname, pname, field))
    passed = False
    for bid, nid in F.calls():
        nd = F.nodes[nid]
        rs = [F.render(a) for a in nd["a"]]
        if cbname in rs and argvar is not None and any(("&" + argvar) in r for r in rs):
            passed = True
    if not passed:
        why.append("callback %s is not passed together with &%s" % (cbname, argvar))
    C = P.fn(cbname)
    lockvar = None
    for bid, nid in C.all_events():
        nd = C.nodes[nid]
        if nd.get("k") == "decl":
            for v in nd["vars"]:
                if "init" in v:
                    fo = C.field_of(v["init"])
                    if fo == (recname, field):
                        lockvar = v["n"]
    if lockvar is None:
        why.append("%s does not read %s::%s" % (cbname, recname, field))
    else:
        ts = run_locks(P, C, entry_held=[lockvar])
        n = 0
        for kind, nid, held, rv in ts.exits:
            if kind == "ret":
                n += 1
                if lockvar in held:
                    why.append("%s returns without releasing %s" % (cbname, lockvar))
        for nid, msg in ts.errors:
            why.append("%s: %s" % (C.loc(nid), msg))
        if n == 0:
            why.append("%s has no returning exit" % cbname)
    rep.ob(rule, "%s: releases its lock argument through callback %s on every path" % (F.name, cbname),
           not why, "; ".join(why), loc="%s:%d" % (F.file, F.line), site=F.name)
