#!/bin/sh
# F3 (C20): consume_int() in src/arch/abtd_affinity_parser.c accumulates digits in a
# signed int without a guard: a long digit string in ABT_SET_AFFINITY is signed-overflow UB.
# The affinity parser is only reached when HAVE_PTHREAD_SETAFFINITY_NP is defined (it is not
# in this sandbox's configure result), so the replay builds a scratch copy with that macro
# defined and with UBSan, then runs ABT_init() with ABT_SET_AFFINITY=99999999999.
# exit 0 = no overflow, 1 = UBSan reported the overflow.
R="${1:-/repo}"; D=$(mktemp -d /tmp/f3.XXXX)
rsync -a --exclude .git --exclude test --exclude examples "$R"/ "$D"/
cd "$D/src" && make -s clean >/dev/null 2>&1
sed -i 's|/\* #undef HAVE_PTHREAD_SETAFFINITY_NP \*/|#define HAVE_PTHREAD_SETAFFINITY_NP 1|' include/abt_config.h
make -j16 CFLAGS="-O1 -g -fsanitize=undefined -fno-sanitize-recover=undefined" >/dev/null 2>&1
cat > "$D/t.c" <<'EOT'
#include <abt.h>
#include <stdio.h>
int main(int argc, char **argv) { ABT_init(argc, argv); ABT_finalize(); printf("PASS\n"); return 0; }
EOT
gcc -fsanitize=undefined "$D/t.c" -I"$D/src/include" -L"$D/src/.libs" -labt -lpthread -o "$D/t" || { rm -rf "$D"; exit 2; }
ABT_SET_AFFINITY="99999999999" LD_LIBRARY_PATH="$D/src/.libs" "$D/t"; rc=$?
rm -rf "$D"; exit $rc
