/* F6 (C06/C11): a ULT that blocks while a migration request is pending is counted as
 * blocked in its OLD pool (the counter is incremented before the request is handled),
 * but the resume decrements the counter of the pool it is associated with at resume
 * time, i.e. the NEW pool.  Result: old pool's blocked count stays 1 forever, the new
 * pool's count underflows, and ABT_xstream_join() of the stream serving the new pool
 * never returns.  Sequence: migrate_to_pool(self, P1); self_suspend; resume. */
#include <abt.h>
#include <stdio.h>
#include <stdlib.h>
#include <unistd.h>

static ABT_pool p0, p1;
static volatile int suspended = 0, done = 0;

static void work(void *arg)
{
    ABT_thread self;
    ABT_thread_self(&self);
    ABT_thread_migrate_to_pool(self, p1);
    suspended = 1;
    ABT_self_suspend();
    done = 1;
}

int main(int argc, char **argv)
{
    ABT_init(argc, argv);
    ABT_xstream xs0, xs1;
    ABT_xstream_self(&xs0);
    ABT_xstream_get_main_pools(xs0, 1, &p0);
    ABT_xstream_create(ABT_SCHED_NULL, &xs1);
    ABT_xstream_get_main_pools(xs1, 1, &p1);
    ABT_thread th;
    ABT_thread_create(p0, work, NULL, ABT_THREAD_ATTR_NULL, &th);
    ABT_thread_state st;
    do {
        ABT_thread_yield();
        ABT_thread_get_state(th, &st);
    } while (!suspended || st != ABT_THREAD_STATE_BLOCKED);
    ABT_thread_resume(th);
    while (!done)
        ABT_thread_yield();
    ABT_thread_join(th);
    ABT_thread_free(&th);
    size_t t0, t1;
    ABT_pool_get_total_size(p0, &t0);
    ABT_pool_get_total_size(p1, &t1);
    printf("total size (queued + blocked): old pool %zu, new pool %zu\n", t0, t1);
    if (t0 != 0 || t1 != 0) {
        printf("FAIL: blocked-unit counters are unbalanced although no unit is blocked\n");
        fflush(stdout);
        _exit(1); /* ABT_xstream_join(xs1) would hang */
    }
    ABT_xstream_join(xs1);
    ABT_xstream_free(&xs1);
    ABT_finalize();
    printf("PASS\n");
    return 0;
}
