/* F5 (C18): ABT_thread_create_many() stores a handle derived from an uninitialised
 * pointer into the caller's array when the creation of that ULT fails (the store
 * precedes the error check).  The failing step is a unit-creation failure of a
 * user-defined pool on the second ULT. */
#include <abt.h>
#include <stdio.h>
#include <stdint.h>
#include <string.h>

static int n_created = 0;
static ABT_unit u_create(ABT_pool pool, ABT_thread thread)
{
    (void)pool;
    if (++n_created == 2)
        return ABT_UNIT_NULL; /* simulated allocation failure */
    return (ABT_unit)thread;
}
static void u_free(ABT_pool pool, ABT_unit unit) { (void)pool; (void)unit; }
static ABT_bool p_is_empty(ABT_pool pool) { (void)pool; return ABT_TRUE; }
static ABT_thread p_pop(ABT_pool pool, ABT_pool_context c) { (void)pool; (void)c; return ABT_THREAD_NULL; }
static void p_push(ABT_pool pool, ABT_unit unit, ABT_pool_context c) { (void)pool; (void)unit; (void)c; }
static void work(void *arg) { (void)arg; }

/* dirty the stack so that the uninitialised local is not accidentally NULL */
static void __attribute__((noinline)) scribble(void)
{
    volatile char buf[4096];
    memset((void *)buf, 0x5a, sizeof(buf));
}

int main(int argc, char **argv)
{
    ABT_init(argc, argv);
    ABT_pool_user_def def;
    ABT_pool_user_def_create(u_create, u_free, p_is_empty, p_pop, p_push, &def);
    ABT_pool upool;
    ABT_pool_create(def, ABT_POOL_CONFIG_NULL, &upool);
    ABT_pool pools[3] = { upool, upool, upool };
    void (*funcs[3])(void *) = { work, work, work };
    ABT_thread th[3] = { ABT_THREAD_NULL, ABT_THREAD_NULL, ABT_THREAD_NULL };
    scribble();
    int ret = ABT_thread_create_many(3, pools, funcs, NULL, ABT_THREAD_ATTR_NULL, th);
    printf("ABT_thread_create_many: %d, handles %p %p %p\n", ret, (void *)th[0], (void *)th[1], (void *)th[2]);
    if (ret == ABT_SUCCESS)
        return 2;
    if (th[1] != ABT_THREAD_NULL) {
        printf("FAIL: a handle was written for the ULT whose creation failed\n");
        return 1;
    }
    printf("PASS\n");
    return 0;
}
