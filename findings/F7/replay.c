/* F7 (C18): when ABT_pool_add_sched() fails because the target pool cannot create a
 * unit (a resource failure inside ythread_create after the scheduler key was
 * registered), the key destructor frees the CALLER's scheduler (created with
 * ABT_sched_create_basic => automatic), the error path then writes into the freed
 * object, and the caller's handle dangles: a retry or ABT_sched_free() touches freed
 * memory.  Run under valgrind to see the invalid accesses; without valgrind the
 * program detects the free by the retry's outcome / glibc's double-free check. */
#include <abt.h>
#include <stdio.h>
#include <stdlib.h>

static int fail_create = 0;
static ABT_unit u_create(ABT_pool pool, ABT_thread thread)
{
    (void)pool;
    if (fail_create)
        return ABT_UNIT_NULL; /* simulated allocation failure */
    return (ABT_unit)thread;
}
static void u_free(ABT_pool pool, ABT_unit unit) { (void)pool; (void)unit; }
static ABT_bool p_is_empty(ABT_pool pool) { (void)pool; return ABT_TRUE; }
static ABT_thread p_pop(ABT_pool pool, ABT_pool_context c) { (void)pool; (void)c; return ABT_THREAD_NULL; }
static void p_push(ABT_pool pool, ABT_unit unit, ABT_pool_context c) { (void)pool; (void)unit; (void)c; }

int main(int argc, char **argv)
{
    ABT_init(argc, argv);
    ABT_pool_user_def def;
    ABT_pool_user_def_create(u_create, u_free, p_is_empty, p_pop, p_push, &def);
    ABT_pool upool, spool;
    ABT_pool_create(def, ABT_POOL_CONFIG_NULL, &upool);
    ABT_pool_create_basic(ABT_POOL_FIFO, ABT_POOL_ACCESS_MPMC, ABT_TRUE, &spool);
    ABT_sched sched;
    ABT_sched_create_basic(ABT_SCHED_BASIC, 1, &spool, ABT_SCHED_CONFIG_NULL, &sched);

    fail_create = 1;
    int ret = ABT_pool_add_sched(upool, sched);
    printf("ABT_pool_add_sched with failing create_unit: %d\n", ret);
    if (ret == ABT_SUCCESS)
        return 2;
    /* The call failed, so `sched` must still be a valid, unused scheduler that the
     * caller owns.  Freeing it must succeed exactly once. */
    fail_create = 0;
    ret = ABT_sched_free(&sched); /* defect: double free of the scheduler */
    printf("ABT_sched_free after the failed call: %d\n", ret);
    ABT_pool_free(&upool);
    ABT_pool_user_def_free(&def);
    ABT_finalize();
    printf("PASS\n");
    return 0;
}
