#!/bin/sh
# exit 0 = clean under valgrind, 9 = invalid accesses (defect present)
R="${1:-/repo}"; D=$(mktemp -d /tmp/f7.XXXX)
gcc -O0 -g /verif/findings/F7/replay.c -I"$R/src/include" -L"$R/src/.libs" -labt -lpthread -o "$D/r" || exit 2
LD_LIBRARY_PATH="$R/src/.libs" valgrind -q --error-exitcode=9 "$D/r"; rc=$?
rm -rf "$D"; exit $rc
