/* F1 (C13): ABT_thread_migrate() never finds a target stream.
 * Three running execution streams with distinct main pools; a migratable ULT on
 * stream 0 asks to be migrated.  Expected: ABT_SUCCESS and the ULT continues on
 * another stream.  Defect: ABT_ERR_MIGRATION_NA (49) always. */
#include <abt.h>
#include <stdio.h>
#include <stdlib.h>
#include <unistd.h>

static ABT_xstream xs[3];
static int result = -1, rank_before = -1, rank_after = -1;

static void work(void *arg)
{
    ABT_thread self;
    ABT_thread_self(&self);
    ABT_xstream_self_rank(&rank_before);
    result = ABT_thread_migrate(self);
    ABT_thread_yield();
    ABT_xstream_self_rank(&rank_after);
}

int main(int argc, char **argv)
{
    int i;
    ABT_init(argc, argv);
    ABT_xstream_self(&xs[0]);
    for (i = 1; i < 3; i++)
        ABT_xstream_create(ABT_SCHED_NULL, &xs[i]);
    usleep(100000); /* let the secondary streams reach RUNNING */
    ABT_pool pool;
    ABT_xstream_get_main_pools(xs[0], 1, &pool);
    ABT_thread th;
    ABT_thread_create(pool, work, NULL, ABT_THREAD_ATTR_NULL, &th);
    ABT_thread_join(th);
    ABT_thread_free(&th);
    for (i = 1; i < 3; i++) {
        ABT_xstream_join(xs[i]);
        ABT_xstream_free(&xs[i]);
    }
    ABT_finalize();
    printf("ABT_thread_migrate returned %d; rank before %d after %d\n", result,
           rank_before, rank_after);
    if (result != ABT_SUCCESS || rank_before == rank_after) {
        printf("FAIL: no migration although two other running streams exist\n");
        return 1;
    }
    printf("PASS\n");
    return 0;
}
