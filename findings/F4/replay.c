/* F4 (C01/C06): a stacked BASIC_WAIT scheduler returns from its run function right
 * after executing a unit obtained through pop_wait(), without consulting
 * ABT_sched_has_to_stop(); the units still queued in its pool are never run.
 * Sequence: the scheduler is idle in pop_wait() when three tasks are pushed. */
#include <abt.h>
#include <stdio.h>
#include <unistd.h>

static volatile int ran[3];
static void work(void *arg) { ran[(int)(size_t)arg] = 1; }

int main(int argc, char **argv)
{
    int i;
    ABT_init(argc, argv);
    ABT_pool pool, xpool;
    ABT_pool_create_basic(ABT_POOL_FIFO, ABT_POOL_ACCESS_MPMC, ABT_TRUE, &pool);
    ABT_sched sched;
    ABT_sched_create_basic(ABT_SCHED_BASIC_WAIT, 1, &pool, ABT_SCHED_CONFIG_NULL, &sched);
    ABT_xstream xs;
    ABT_xstream_create(ABT_SCHED_NULL, &xs);
    ABT_xstream_get_main_pools(xs, 1, &xpool);
    ABT_pool_add_sched(xpool, sched);
    usleep(30000); /* the stacked scheduler is now blocked in pop_wait(0.1 s) */
    for (i = 0; i < 3; i++)
        ABT_task_create(pool, work, (void *)(size_t)i, NULL);
    sleep(1);
    printf("ran: %d %d %d\n", ran[0], ran[1], ran[2]);
    int ok = ran[0] && ran[1] && ran[2];
    if (!ok) {
        printf("FAIL: units pushed to the stacked scheduler's pool were dropped\n");
        fflush(stdout);
        _exit(1); /* joining would hang or leave the units behind */
    }
    ABT_sched_finish(sched);
    ABT_xstream_join(xs);
    ABT_xstream_free(&xs);
    ABT_finalize();
    printf("PASS\n");
    return 0;
}
