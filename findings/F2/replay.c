/* F2 (C15): a ULT created with a stack size that is not a multiple of the cache
 * line size (64) corrupts the allocator when freed: the malloc'ed block is
 * base = top - roundup(size, 64), but ABTI_mem_free_thread() frees top - size. */
#include <abt.h>
#include <stdio.h>

static void work(void *arg) { (void)arg; }

int main(int argc, char **argv)
{
    ABT_init(argc, argv);
    ABT_xstream xs;
    ABT_pool pool;
    ABT_xstream_self(&xs);
    ABT_xstream_get_main_pools(xs, 1, &pool);
    ABT_thread_attr attr;
    ABT_thread_attr_create(&attr);
    ABT_thread_attr_set_stacksize(attr, 32768 + 8);
    ABT_thread th;
    int ret = ABT_thread_create(pool, work, NULL, attr, &th);
    if (ret != ABT_SUCCESS) {
        printf("create failed %d\n", ret);
        return 2;
    }
    ABT_thread_join(th);
    ABT_thread_free(&th); /* glibc aborts here: free(): invalid pointer */
    ABT_thread_attr_free(&attr);
    ABT_finalize();
    printf("PASS\n");
    return 0;
}
