#!/bin/sh
# usage: run_replay.sh <Fx> [repo]  -- builds findings/<Fx>/replay.c against the built library of <repo>
F="$1"; R="${2:-/repo}"; D=$(mktemp -d /tmp/replay.XXXX)
gcc -O1 -g "/verif/findings/$F/replay.c" -I"$R/src/include" -L"$R/src/.libs" -labt -lpthread -o "$D/replay" || exit 2
LD_LIBRARY_PATH="$R/src/.libs" timeout 20 "$D/replay"; rc=$?
rm -rf "$D"; exit $rc
