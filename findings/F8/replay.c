/* F8 (C12/C02/C11): ABT_self_suspend_to() switches to the target without marking it
 * RUNNING (every other directed switch release-stores RUNNING first).  The target then
 * executes while its observable state is still READY. */
#include <abt.h>
#include <stdio.h>

static ABT_thread_state seen = (ABT_thread_state)-1;
static ABT_thread waiter;

static void target(void *arg)
{
    ABT_thread self;
    ABT_thread_self(&self);
    ABT_thread_get_state(self, &seen);
    ABT_thread_resume(waiter); /* let the suspended caller continue later */
}

static void caller(void *arg)
{
    ABT_pool pool = (ABT_pool)arg;
    ABT_thread t;
    ABT_thread_self(&waiter);
    /* create the target without pushing it: use create_to semantics via a private pool */
    ABT_thread_create(pool, target, NULL, ABT_THREAD_ATTR_NULL, &t);
    /* take it out of the pool so that it is READY and not in any pool */
    ABT_unit unit;
    ABT_thread_get_unit(t, &unit);
    int r1 = ABT_pool_remove(pool, unit);
    int r2 = ABT_self_suspend_to(t);
    if (r1 || r2) printf("setup error: remove=%d suspend_to=%d\n", r1, r2);
    ABT_thread_free(&t);
}

int main(int argc, char **argv)
{
    ABT_init(argc, argv);
    ABT_xstream xs;
    ABT_pool mainpool, side;
    ABT_xstream_self(&xs);
    ABT_xstream_get_main_pools(xs, 1, &mainpool);
    ABT_pool_create_basic(ABT_POOL_FIFO, ABT_POOL_ACCESS_MPMC, ABT_TRUE, &side);
    ABT_thread c;
    ABT_thread_create(mainpool, caller, (void *)side, ABT_THREAD_ATTR_NULL, &c);
    ABT_thread_join(c);
    ABT_thread_free(&c);
    ABT_finalize();
    printf("state observed by the target while running: %d (RUNNING = %d, READY = %d)\n", (int)seen,
           (int)ABT_THREAD_STATE_RUNNING, (int)ABT_THREAD_STATE_READY);
    if (seen != ABT_THREAD_STATE_RUNNING) {
        printf("FAIL: a running ULT reports a state other than RUNNING\n");
        return 1;
    }
    printf("PASS\n");
    return 0;
}
