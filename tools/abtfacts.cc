// abtfacts: libTooling fact extractor for the argobots static checks.
//
// For one translation unit it writes one JSON file with
//   * every function that has a body: CFG blocks (clang::CFG built with
//     setAllAlwaysAdd, constant-condition edges marked unreachable), the
//     evaluation-ordered list of expression nodes per block, terminators,
//     case labels, and a flat table of expression nodes;
//   * function prototypes with their attributes (warn_unused_result, noreturn);
//   * file-scope variables with initialisers (function tables);
//   * record layouts and enum constants.
// Functions defined in headers are emitted by exactly one unit (the first one
// that creates the marker file under --hdr).
//
// No source text is matched: callees, fields and declarations are the
// resolved clang declarations.

#include "clang/AST/ASTConsumer.h"
#include "clang/AST/ASTContext.h"
#include "clang/AST/Attr.h"
#include "clang/AST/Decl.h"
#include "clang/AST/Expr.h"
#include "clang/AST/RecordLayout.h"
#include "clang/AST/RecursiveASTVisitor.h"
#include "clang/AST/Stmt.h"
#include "clang/Analysis/CFG.h"
#include "clang/Analysis/AnalysisDeclContext.h"
#include "clang/Frontend/CompilerInstance.h"
#include "clang/Frontend/FrontendAction.h"
#include "clang/Lex/Lexer.h"
#include "clang/Tooling/CommonOptionsParser.h"
#include "clang/Tooling/Tooling.h"
#include "llvm/Support/CommandLine.h"
#include "llvm/Support/raw_ostream.h"

#include <fcntl.h>
#include <map>
#include <set>
#include <string>
#include <unistd.h>
#include <vector>

using namespace clang;
using namespace clang::tooling;

static llvm::cl::OptionCategory Cat("abtfacts options");
static llvm::cl::opt<std::string> OutPath("o", llvm::cl::desc("output JSON"),
                                          llvm::cl::Required,
                                          llvm::cl::cat(Cat));
static llvm::cl::opt<std::string> HdrDir("hdr",
                                         llvm::cl::desc("header marker dir"),
                                         llvm::cl::init(""),
                                         llvm::cl::cat(Cat));
static llvm::cl::opt<std::string> Root("root", llvm::cl::desc("repo root"),
                                       llvm::cl::init("/repo"),
                                       llvm::cl::cat(Cat));

namespace {

std::string jesc(llvm::StringRef S) {
    std::string O;
    O.reserve(S.size() + 2);
    for (unsigned char c : S) {
        switch (c) {
            case '"': O += "\\\""; break;
            case '\\': O += "\\\\"; break;
            case '\n': O += "\\n"; break;
            case '\t': O += "\\t"; break;
            case '\r': O += "\\r"; break;
            default:
                if (c < 0x20 || c >= 0x7f) {
                    char buf[8];
                    snprintf(buf, sizeof(buf), "\\u%04x", c);
                    O += buf;
                } else
                    O += (char)c;
        }
    }
    return O;
}
std::string q(llvm::StringRef S) { return "\"" + jesc(S) + "\""; }

struct Emitter {
    ASTContext &Ctx;
    SourceManager &SM;
    std::string RootDir;
    // per function
    std::map<const Stmt *, int> Ids;
    std::vector<std::string> Nodes; // JSON text of each node
    const FunctionDecl *CurFn = nullptr;

    Emitter(ASTContext &C)
        : Ctx(C), SM(C.getSourceManager()), RootDir(Root) {
        if (!RootDir.empty() && RootDir.back() != '/')
            RootDir += '/';
    }

    std::string relPath(SourceLocation L) {
        L = SM.getExpansionLoc(L);
        PresumedLoc P = SM.getPresumedLoc(L);
        if (P.isInvalid())
            return "";
        std::string F = P.getFilename();
        // normalise "./x" and "../src/include/x"
        llvm::SmallString<256> Abs(F);
        if (auto FE = SM.getFileEntryForID(SM.getFileID(L))) {
            llvm::StringRef RP = FE->tryGetRealPathName();
            if (!RP.empty())
                Abs = RP;
        }
        std::string A = Abs.str().str();
        if (A.compare(0, RootDir.size(), RootDir) == 0)
            return A.substr(RootDir.size());
        return A;
    }
    unsigned lineOf(SourceLocation L) {
        return SM.getExpansionLineNumber(L);
    }

    std::string typeStr(QualType T) {
        if (T.isNull())
            return "";
        return T.getAsString();
    }
    // Name of the record behind a type (through typedefs and pointers).
    std::string recordName(QualType T) {
        if (T.isNull())
            return "";
        while (true) {
            if (T->isPointerType())
                T = T->getPointeeType();
            else if (T->isArrayType())
                T = QualType(T->getArrayElementTypeNoTypeQual(), 0);
            else
                break;
        }
        if (const RecordType *RT = T->getAs<RecordType>())
            return recName(RT->getDecl());
        return "";
    }
    std::string recName(const RecordDecl *RD) {
        if (RD->getIdentifier())
            return RD->getName().str();
        if (const TypedefNameDecl *TD = RD->getTypedefNameForAnonDecl())
            return TD->getName().str();
        return "<anon@" + relPath(RD->getLocation()) + ":" +
               std::to_string(lineOf(RD->getLocation())) + ">";
    }

    std::string macroChain(SourceLocation L) {
        // outermost-last list of macro names whose expansion produced L
        std::string O;
        int n = 0;
        std::set<std::string> seen;
        while (L.isMacroID() && n < 12) {
            llvm::StringRef N =
                Lexer::getImmediateMacroName(L, SM, Ctx.getLangOpts());
            if (!N.empty() && !seen.count(N.str())) {
                seen.insert(N.str());
                if (!O.empty())
                    O += ",";
                O += q(N);
            }
            if (SM.isMacroArgExpansion(L))
                L = SM.getImmediateExpansionRange(L).getBegin();
            else
                L = SM.getImmediateMacroCallerLoc(L);
            n++;
        }
        return O;
    }

    bool transparent(const Stmt *S) {
        if (isa<ParenExpr>(S) || isa<ConstantExpr>(S) ||
            isa<ExprWithCleanups>(S))
            return true;
        if (const auto *IC = dyn_cast<ImplicitCastExpr>(S))
            return IC->getCastKind() != CK_LValueToRValue;
        if (const auto *CE = dyn_cast<CStyleCastExpr>(S)) {
            // keep explicit casts (needed for (void) discards and narrowing)
            (void)CE;
            return false;
        }
        return false;
    }
    const Stmt *strip(const Stmt *S) {
        while (S && transparent(S)) {
            if (const auto *P = dyn_cast<ParenExpr>(S))
                S = P->getSubExpr();
            else if (const auto *C = dyn_cast<ConstantExpr>(S))
                S = C->getSubExpr();
            else if (const auto *E = dyn_cast<ExprWithCleanups>(S))
                S = E->getSubExpr();
            else if (const auto *I = dyn_cast<ImplicitCastExpr>(S))
                S = I->getSubExpr();
            else
                break;
        }
        return S;
    }

    int node(const Stmt *S0) {
        if (!S0)
            return -1;
        const Stmt *S = strip(S0);
        auto It = Ids.find(S);
        if (It != Ids.end())
            return It->second;
        int Id = Nodes.size();
        Nodes.push_back("");
        Ids[S] = Id;
        std::string J = "{";
        SourceLocation L = S->getBeginLoc();
        J += "\"l\":" + std::to_string(lineOf(L));
        if (L.isMacroID()) {
            std::string M = macroChain(L);
            if (!M.empty())
                J += ",\"m\":[" + M + "]";
        }
        // constant value, if any
        if (const auto *E = dyn_cast<Expr>(S)) {
            if (!E->isValueDependent() && !isa<InitListExpr>(E) &&
                E->getType()->isIntegralOrEnumerationType()) {
                Expr::EvalResult R;
                if (E->EvaluateAsInt(R, Ctx, Expr::SE_NoSideEffects)) {
                    llvm::SmallString<32> V;
                    R.Val.getInt().toString(V, 10);
                    J += ",\"cv\":" + V.str().str();
                }
            }
        }
        J += body(S);
        J += "}";
        Nodes[Id] = J;
        return Id;
    }

    std::string idlist(llvm::ArrayRef<int> V) {
        std::string O = "[";
        for (size_t i = 0; i < V.size(); i++) {
            if (i)
                O += ",";
            O += std::to_string(V[i]);
        }
        return O + "]";
    }

    std::string body(const Stmt *S) {
        std::string J;
        if (const auto *D = dyn_cast<DeclRefExpr>(S)) {
            const ValueDecl *VD = D->getDecl();
            J += ",\"k\":\"ref\",\"n\":" + q(VD->getNameAsString());
            if (isa<ParmVarDecl>(VD))
                J += ",\"dk\":\"param\"";
            else if (const auto *V = dyn_cast<VarDecl>(VD))
                J += std::string(",\"dk\":") +
                     (V->hasGlobalStorage() ? "\"global\"" : "\"var\"");
            else if (isa<FunctionDecl>(VD))
                J += ",\"dk\":\"func\"";
            else if (isa<EnumConstantDecl>(VD))
                J += ",\"dk\":\"enum\"";
            J += ",\"t\":" + q(typeStr(VD->getType()));
        } else if (const auto *I = dyn_cast<IntegerLiteral>(S)) {
            (void)I;
            J += ",\"k\":\"int\"";
        } else if (const auto *C = dyn_cast<CharacterLiteral>(S)) {
            (void)C;
            J += ",\"k\":\"int\"";
        } else if (const auto *F = dyn_cast<FloatingLiteral>(S)) {
            llvm::SmallString<32> V;
            F->getValue().toString(V);
            J += ",\"k\":\"float\",\"v\":" + q(V);
        } else if (const auto *Str = dyn_cast<StringLiteral>(S)) {
            J += ",\"k\":\"str\",\"v\":" +
                 q(Str->isAscii() ? Str->getString() : "<wide>");
        } else if (const auto *M = dyn_cast<MemberExpr>(S)) {
            int B = node(M->getBase());
            J += ",\"k\":\"mem\",\"b\":" + std::to_string(B) +
                 ",\"f\":" + q(M->getMemberDecl()->getNameAsString());
            std::string R;
            if (const auto *FD = dyn_cast<FieldDecl>(M->getMemberDecl()))
                R = recName(FD->getParent());
            J += ",\"r\":" + q(R);
            J += std::string(",\"arrow\":") + (M->isArrow() ? "1" : "0");
            J += ",\"t\":" + q(typeStr(M->getType()));
        } else if (const auto *U = dyn_cast<UnaryOperator>(S)) {
            int E = node(U->getSubExpr());
            std::string Op = UnaryOperator::getOpcodeStr(U->getOpcode()).str();
            if (U->isPostfix())
                Op = "post" + Op;
            else if (U->isIncrementDecrementOp())
                Op = "pre" + Op;
            J += ",\"k\":\"un\",\"op\":" + q(Op) +
                 ",\"e\":" + std::to_string(E);
        } else if (const auto *B = dyn_cast<BinaryOperator>(S)) {
            int Lh = node(B->getLHS());
            int Rh = node(B->getRHS());
            J += ",\"k\":\"bin\",\"op\":" + q(B->getOpcodeStr()) +
                 ",\"lh\":" + std::to_string(Lh) +
                 ",\"rh\":" + std::to_string(Rh);
            if (B->isAssignmentOp())
                J += ",\"asg\":1";
            J += ",\"t\":" + q(typeStr(B->getType()));
        } else if (const auto *C = dyn_cast<AbstractConditionalOperator>(S)) {
            int Cc = node(C->getCond());
            int T = node(C->getTrueExpr());
            int F = node(C->getFalseExpr());
            J += ",\"k\":\"cond\",\"c\":" + std::to_string(Cc) +
                 ",\"th\":" + std::to_string(T) +
                 ",\"el\":" + std::to_string(F);
        } else if (const auto *C = dyn_cast<CallExpr>(S)) {
            J += ",\"k\":\"call\"";
            const FunctionDecl *FD = C->getDirectCallee();
            if (FD) {
                J += ",\"fn\":" + q(FD->getNameAsString());
                if (FD->isNoReturn())
                    J += ",\"noret\":1";
            } else {
                J += ",\"fe\":" + std::to_string(node(C->getCallee()));
            }
            std::vector<int> A;
            for (const Expr *Arg : C->arguments())
                A.push_back(node(Arg));
            J += ",\"a\":" + idlist(A);
            J += ",\"t\":" + q(typeStr(C->getType()));
        } else if (const auto *C = dyn_cast<ImplicitCastExpr>(S)) {
            // only LValueToRValue reaches here
            J += ",\"k\":\"load\",\"e\":" + std::to_string(node(C->getSubExpr()));
        } else if (const auto *C = dyn_cast<ExplicitCastExpr>(S)) {
            J += ",\"k\":\"cast\",\"e\":" + std::to_string(node(C->getSubExpr())) +
                 ",\"t\":" + q(typeStr(C->getType()));
        } else if (const auto *A = dyn_cast<ArraySubscriptExpr>(S)) {
            J += ",\"k\":\"idx\",\"b\":" + std::to_string(node(A->getBase())) +
                 ",\"i\":" + std::to_string(node(A->getIdx())) +
                 ",\"t\":" + q(typeStr(A->getType()));
        } else if (const auto *U = dyn_cast<UnaryExprOrTypeTraitExpr>(S)) {
            J += ",\"k\":\"sizeof\"";
            if (U->isArgumentType())
                J += ",\"t\":" + q(typeStr(U->getArgumentType()));
            else
                J += ",\"t\":" + q(typeStr(U->getArgumentExpr()->getType()));
        } else if (const auto *D = dyn_cast<DeclStmt>(S)) {
            J += ",\"k\":\"decl\",\"vars\":[";
            bool first = true;
            for (const Decl *Dd : D->decls()) {
                if (const auto *V = dyn_cast<VarDecl>(Dd)) {
                    if (!first)
                        J += ",";
                    first = false;
                    J += "{\"n\":" + q(V->getNameAsString()) +
                         ",\"t\":" + q(typeStr(V->getType()));
                    if (V->hasInit())
                        J += ",\"init\":" + std::to_string(node(V->getInit()));
                    if (V->isStaticLocal())
                        J += ",\"static\":1";
                    J += "}";
                }
            }
            J += "]";
        } else if (const auto *R = dyn_cast<ReturnStmt>(S)) {
            J += ",\"k\":\"ret\"";
            if (R->getRetValue())
                J += ",\"e\":" + std::to_string(node(R->getRetValue()));
        } else if (const auto *IL = dyn_cast<InitListExpr>(S)) {
            const InitListExpr *Sem = IL->isSemanticForm() ? IL : IL->getSemanticForm();
            if (!Sem)
                Sem = IL;
            std::vector<int> A;
            for (const Expr *E : Sem->inits())
                A.push_back(node(E));
            J += ",\"k\":\"ilist\",\"e\":" + idlist(A) +
                 ",\"t\":" + q(typeStr(IL->getType()));
        } else if (const auto *CL = dyn_cast<CompoundLiteralExpr>(S)) {
            J += ",\"k\":\"clit\",\"e\":" + std::to_string(node(CL->getInitializer()));
        } else if (const auto *SE = dyn_cast<StmtExpr>(S)) {
            (void)SE;
            J += ",\"k\":\"stmtexpr\"";
        } else if (isa<GCCAsmStmt>(S)) {
            J += ",\"k\":\"asm\"";
        } else if (isa<ImplicitValueInitExpr>(S)) {
            J += ",\"k\":\"zero\"";
        } else if (const auto *DI = dyn_cast<DesignatedInitExpr>(S)) {
            J += ",\"k\":\"dinit\",\"e\":" + std::to_string(node(DI->getInit()));
        } else if (const auto *AE = dyn_cast<AtomicExpr>(S)) {
            std::vector<int> A;
            for (unsigned i = 0; i < AE->getNumSubExprs(); i++)
                A.push_back(node(AE->getSubExprs()[i]));
            J += ",\"k\":\"atomic\",\"op\":" + std::to_string((int)AE->getOp()) +
                 ",\"a\":" + idlist(A);
        } else if (const auto *PE = dyn_cast<PredefinedExpr>(S)) {
            (void)PE;
            J += ",\"k\":\"str\",\"v\":\"<func>\"";
        } else if (const auto *VA = dyn_cast<VAArgExpr>(S)) {
            J += ",\"k\":\"vaarg\",\"e\":" + std::to_string(node(VA->getSubExpr()));
        } else if (const auto *OE = dyn_cast<OffsetOfExpr>(S)) {
            (void)OE;
            J += ",\"k\":\"offsetof\"";
        } else {
            J += ",\"k\":\"other\",\"cls\":" + q(S->getStmtClassName());
            std::vector<int> A;
            for (const Stmt *Ch : S->children())
                if (Ch)
                    A.push_back(node(Ch));
            J += ",\"ch\":" + idlist(A);
        }
        return J;
    }

    // --------------------------------------------------------------
    bool claimHeaderFn(const FunctionDecl *FD, const std::string &File) {
        if (HdrDir.empty())
            return true;
        std::string Key = File + "_" + std::to_string(lineOf(FD->getLocation())) +
                          "_" + FD->getNameAsString();
        for (char &c : Key)
            if (c == '/')
                c = '!';
        std::string P = HdrDir + "/" + Key;
        int fd = open(P.c_str(), O_CREAT | O_EXCL | O_WRONLY, 0644);
        if (fd < 0)
            return false;
        close(fd);
        return true;
    }

    std::string fnHeader(const FunctionDecl *FD) {
        std::string J;
        J += "\"name\":" + q(FD->getNameAsString());
        J += ",\"file\":" + q(relPath(FD->getLocation()));
        J += ",\"line\":" + std::to_string(lineOf(FD->getLocation()));
        J += ",\"endline\":" + std::to_string(lineOf(FD->getEndLoc()));
        J += std::string(",\"static\":") +
             (FD->getStorageClass() == SC_Static ? "1" : "0");
        J += std::string(",\"inline\":") + (FD->isInlineSpecified() ? "1" : "0");
        J += std::string(",\"noreturn\":") + (FD->isNoReturn() ? "1" : "0");
        J += std::string(",\"wur\":") +
             (FD->hasAttr<WarnUnusedResultAttr>() ? "1" : "0");
        J += ",\"ret\":" + q(typeStr(FD->getReturnType()));
        J += ",\"params\":[";
        for (unsigned i = 0; i < FD->getNumParams(); i++) {
            if (i)
                J += ",";
            const ParmVarDecl *P = FD->getParamDecl(i);
            J += "{\"n\":" + q(P->getNameAsString()) +
                 ",\"t\":" + q(typeStr(P->getType())) + "}";
        }
        J += "]";
        return J;
    }

    std::string emitFunction(const FunctionDecl *FD) {
        Ids.clear();
        Nodes.clear();
        CurFn = FD;
        CFG::BuildOptions BO;
        BO.setAllAlwaysAdd();
        BO.PruneTriviallyFalseEdges = true;
        BO.AddImplicitDtors = false;
        BO.AddEHEdges = false;
        std::unique_ptr<CFG> G =
            CFG::buildCFG(FD, FD->getBody(), &Ctx, BO);
        std::string J = "{" + fnHeader(FD);
        if (!G) {
            J += ",\"cfg\":null}";
            return J;
        }
        J += ",\"entry\":" + std::to_string(G->getEntry().getBlockID());
        J += ",\"exit\":" + std::to_string(G->getExit().getBlockID());
        J += ",\"blocks\":[";
        bool firstB = true;
        for (const CFGBlock *B : *G) {
            if (!firstB)
                J += ",";
            firstB = false;
            J += "{\"id\":" + std::to_string(B->getBlockID());
            // label
            if (const Stmt *Lb = B->getLabel()) {
                if (const auto *CS = dyn_cast<CaseStmt>(Lb)) {
                    Expr::EvalResult R;
                    J += ",\"case\":";
                    if (CS->getLHS()->EvaluateAsInt(R, Ctx)) {
                        llvm::SmallString<32> V;
                        R.Val.getInt().toString(V, 10);
                        J += V.str().str();
                    } else
                        J += "null";
                    // name of the enumerator if it is one
                    const Expr *LE = CS->getLHS()->IgnoreParenImpCasts();
                    if (const auto *DR = dyn_cast<DeclRefExpr>(LE))
                        J += ",\"casename\":" + q(DR->getDecl()->getNameAsString());
                } else if (isa<DefaultStmt>(Lb)) {
                    J += ",\"default\":1";
                } else if (const auto *LS = dyn_cast<LabelStmt>(Lb)) {
                    J += ",\"label\":" + q(LS->getName());
                }
            }
            if (B->hasNoReturnElement())
                J += ",\"noret\":1";
            // elements
            J += ",\"e\":[";
            bool firstE = true;
            int last = -2;
            for (const CFGElement &El : *B) {
                if (auto CS = El.getAs<CFGStmt>()) {
                    const Stmt *S = CS->getStmt();
                    int Id = node(S);
                    if (Id == last)
                        continue; // transparent wrapper of previous element
                    last = Id;
                    if (!firstE)
                        J += ",";
                    firstE = false;
                    J += std::to_string(Id);
                }
            }
            J += "]";
            // terminator
            if (const Stmt *T = B->getTerminatorStmt()) {
                std::string TK = T->getStmtClassName();
                if (const auto *BO2 = dyn_cast<BinaryOperator>(T))
                    TK = BO2->getOpcodeStr().str();
                J += ",\"tk\":" + q(TK);
                J += ",\"tl\":" + std::to_string(lineOf(T->getBeginLoc()));
                if (T->getBeginLoc().isMacroID()) {
                    std::string M = macroChain(T->getBeginLoc());
                    if (!M.empty())
                        J += ",\"tm\":[" + M + "]";
                }
                if (const Stmt *C = B->getTerminatorCondition(true))
                    J += ",\"tc\":" + std::to_string(node(C));
                if (isa<BinaryOperator>(T) || isa<AbstractConditionalOperator>(T))
                    J += ",\"ts\":" + std::to_string(node(T));
                if (const auto *GS = dyn_cast<GotoStmt>(T))
                    J += ",\"goto\":" + q(GS->getLabel()->getName());
            }
            // successors
            J += ",\"s\":[";
            bool firstS = true;
            for (auto SI = B->succ_begin(); SI != B->succ_end(); ++SI) {
                if (!firstS)
                    J += ",";
                firstS = false;
                const CFGBlock *R = SI->getReachableBlock();
                const CFGBlock *PU = SI->getPossiblyUnreachableBlock();
                if (R)
                    J += std::to_string(R->getBlockID());
                else if (PU)
                    J += "{\"u\":" + std::to_string(PU->getBlockID()) + "}";
                else
                    J += "null";
            }
            J += "]}";
        }
        J += "]";
        J += ",\"nodes\":[";
        for (size_t i = 0; i < Nodes.size(); i++) {
            if (i)
                J += ",";
            J += Nodes[i].empty() ? "null" : Nodes[i];
        }
        J += "]}";
        return J;
    }
};

class Consumer : public ASTConsumer {
  public:
    void HandleTranslationUnit(ASTContext &Ctx) override {
        Emitter E(Ctx);
        SourceManager &SM = Ctx.getSourceManager();
        std::string Out = "{";
        std::string MainFile =
            E.relPath(SM.getLocForStartOfFile(SM.getMainFileID()));
        Out += "\"unit\":" + q(MainFile);
        std::vector<std::string> Fns, Protos, Globals, Records, Enums;
        std::set<std::string> SeenRec;
        std::set<std::string> SeenProto;
        for (Decl *D : Ctx.getTranslationUnitDecl()->decls())
            visitDecl(D, E, SM, Fns, Protos, Globals, Records, Enums, SeenRec,
                      SeenProto);
        auto join = [](const std::vector<std::string> &V) {
            std::string O = "[";
            for (size_t i = 0; i < V.size(); i++) {
                if (i)
                    O += ",\n";
                O += V[i];
            }
            return O + "]";
        };
        Out += ",\n\"functions\":" + join(Fns);
        Out += ",\n\"protos\":" + join(Protos);
        Out += ",\n\"globals\":" + join(Globals);
        Out += ",\n\"records\":" + join(Records);
        Out += ",\n\"enums\":" + join(Enums);
        Out += "}\n";
        std::error_code EC;
        llvm::raw_fd_ostream OS(OutPath, EC);
        if (EC) {
            llvm::errs() << "cannot write " << OutPath << "\n";
            exit(3);
        }
        OS << Out;
    }

    void visitDecl(Decl *D, Emitter &E, SourceManager &SM,
                   std::vector<std::string> &Fns,
                   std::vector<std::string> &Protos,
                   std::vector<std::string> &Globals,
                   std::vector<std::string> &Records,
                   std::vector<std::string> &Enums,
                   std::set<std::string> &SeenRec,
                   std::set<std::string> &SeenProto) {
        ASTContext &Ctx = E.Ctx;
        if (auto *FD = dyn_cast<FunctionDecl>(D)) {
            std::string File = E.relPath(FD->getLocation());
            bool InRepo = !File.empty() && File[0] != '/';
            if (FD->doesThisDeclarationHaveABody()) {
                if (!InRepo)
                    return;
                bool InMain = SM.isInMainFile(SM.getExpansionLoc(FD->getLocation()));
                if (!InMain && !E.claimHeaderFn(FD, File))
                    return;
                Fns.push_back(E.emitFunction(FD));
            } else if (InRepo) {
                std::string K = FD->getNameAsString();
                if (SeenProto.insert(K).second)
                    Protos.push_back("{" + E.fnHeader(FD) + "}");
            }
        } else if (auto *VD = dyn_cast<VarDecl>(D)) {
            std::string File = E.relPath(VD->getLocation());
            if (File.empty() || File[0] == '/')
                return;
            E.Ids.clear();
            E.Nodes.clear();
            std::string J = "{\"name\":" + q(VD->getNameAsString()) +
                            ",\"file\":" + q(File) +
                            ",\"line\":" + std::to_string(E.lineOf(VD->getLocation())) +
                            ",\"t\":" + q(E.typeStr(VD->getType())) +
                            std::string(",\"static\":") +
                            (VD->getStorageClass() == SC_Static ? "1" : "0") +
                            std::string(",\"def\":") +
                            (VD->isThisDeclarationADefinition() ? "1" : "0");
            if (VD->hasInit()) {
                int I = E.node(VD->getInit());
                J += ",\"init\":" + std::to_string(I) + ",\"nodes\":[";
                for (size_t i = 0; i < E.Nodes.size(); i++) {
                    if (i)
                        J += ",";
                    J += E.Nodes[i].empty() ? "null" : E.Nodes[i];
                }
                J += "]";
            }
            J += "}";
            Globals.push_back(J);
        } else if (auto *RD = dyn_cast<RecordDecl>(D)) {
            emitRecord(RD, E, Records, SeenRec);
        } else if (auto *TD = dyn_cast<TypedefNameDecl>(D)) {
            QualType T = TD->getUnderlyingType();
            if (const RecordType *RT = T->getAs<RecordType>())
                emitRecord(RT->getDecl(), E, Records, SeenRec);
            if (const EnumType *ET = T->getAs<EnumType>())
                emitEnum(ET->getDecl(), E, Enums);
        } else if (auto *ED = dyn_cast<EnumDecl>(D)) {
            emitEnum(ED, E, Enums);
        }
        (void)Ctx;
    }

    std::set<const EnumDecl *> SeenEnum;
    void emitEnum(const EnumDecl *ED, Emitter &E,
                  std::vector<std::string> &Enums) {
        ED = ED->getDefinition();
        if (!ED || !SeenEnum.insert(ED).second)
            return;
        std::string File = E.relPath(ED->getLocation());
        if (File.empty() || File[0] == '/')
            return;
        std::string J = "{\"name\":" + q(ED->getNameAsString()) + ",\"file\":" +
                        q(File) + ",\"consts\":{";
        bool first = true;
        for (const EnumConstantDecl *C : ED->enumerators()) {
            if (!first)
                J += ",";
            first = false;
            llvm::SmallString<32> V;
            C->getInitVal().toString(V, 10);
            J += q(C->getNameAsString()) + ":" + V.str().str();
        }
        J += "}}";
        Enums.push_back(J);
    }

    void emitRecord(const RecordDecl *RD, Emitter &E,
                    std::vector<std::string> &Records,
                    std::set<std::string> &SeenRec) {
        RD = RD->getDefinition();
        if (!RD || RD->isInvalidDecl())
            return;
        std::string File = E.relPath(RD->getLocation());
        if (File.empty() || File[0] == '/')
            return;
        std::string N = E.recName(RD);
        if (!SeenRec.insert(N).second)
            return;
        const ASTRecordLayout &L = E.Ctx.getASTRecordLayout(RD);
        std::string J = "{\"name\":" + q(N) + ",\"file\":" + q(File) +
                        ",\"line\":" + std::to_string(E.lineOf(RD->getLocation())) +
                        ",\"size\":" + std::to_string(L.getSize().getQuantity()) +
                        ",\"align\":" + std::to_string(L.getAlignment().getQuantity()) +
                        std::string(",\"union\":") + (RD->isUnion() ? "1" : "0") +
                        ",\"fields\":[";
        unsigned i = 0;
        bool first = true;
        for (const FieldDecl *F : RD->fields()) {
            if (!first)
                J += ",";
            first = false;
            std::string Sz = "-1";
            if (!F->getType()->isIncompleteType() && !F->isBitField())
                Sz = std::to_string(E.Ctx.getTypeSizeInChars(F->getType()).getQuantity());
            J += "{\"n\":" + q(F->getNameAsString()) + ",\"t\":" +
                 q(E.typeStr(F->getType())) + ",\"off\":" +
                 std::to_string(L.getFieldOffset(i) / 8) + ",\"sz\":" + Sz +
                 std::string(",\"signed\":") + (F->getType()->isSignedIntegerType() ? "1" : "0") + "}";
            i++;
            // nested anonymous / named records
            if (const RecordType *RT = F->getType()->getAs<RecordType>())
                emitRecord(RT->getDecl(), E, Records, SeenRec);
        }
        J += "]}";
        Records.push_back(J);
    }
};

class Action : public ASTFrontendAction {
  public:
    std::unique_ptr<ASTConsumer> CreateASTConsumer(CompilerInstance &,
                                                   llvm::StringRef) override {
        return std::make_unique<Consumer>();
    }
};

} // namespace

int main(int argc, const char **argv) {
    auto Exp = CommonOptionsParser::create(argc, argv, Cat);
    if (!Exp) {
        llvm::errs() << llvm::toString(Exp.takeError());
        return 2;
    }
    CommonOptionsParser &OP = Exp.get();
    ClangTool Tool(OP.getCompilations(), OP.getSourcePathList());
    int rc = Tool.run(newFrontendActionFactory<Action>().get());
    return rc ? 2 : 0;
}
