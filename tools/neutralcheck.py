#!/usr/bin/env python3
"""Run every check against each behaviour-preserving patch in /verif/neutral/*.diff
(applied to a scratch copy of /repo, removed afterwards).  Every check must stay silent:
a VIOLATION or ANALYSIS-BROKEN here is a false alarm of the machinery.

usage: neutralcheck.py [patch names...] [--props C05,C19] [--tier quick]"""
import argparse
import os
import shutil
import subprocess
import sys
import tempfile
from concurrent.futures import ThreadPoolExecutor

VERIF = os.path.dirname(os.path.dirname(os.path.abspath(__file__)))


def main():
    os.environ["VERIF_KEEP_CACHE"] = "1"   # one extraction per scratch copy; removed below
    ap = argparse.ArgumentParser()
    ap.add_argument("patches", nargs="*")
    ap.add_argument("--props", default=None)
    ap.add_argument("--tier", default="quick")
    ap.add_argument("--jobs", type=int, default=4)
    ap.add_argument("--record", action="store_true", help="write neutral/RESULTS.json (all checks, all patches)")
    ap.add_argument("--dir", default=os.path.join(VERIF, "neutral"))
    a = ap.parse_args()
    names = a.patches or sorted(f for f in os.listdir(a.dir) if f.endswith(".diff"))
    props = a.props.split(",") if a.props else sorted(
        f[:-3] for f in os.listdir(os.path.join(VERIF, "rules")) if f.startswith("C") and f.endswith(".py"))
    bad = [0]
    results = {}

    def do(n):
        tmp = tempfile.mkdtemp(prefix="neutral.", dir="/tmp")
        try:
            subprocess.run(["rsync", "-a", "--exclude", ".git", "--exclude", "test", "--exclude", "examples",
                            "--exclude", "*.o", "--exclude", "*.lo", "--exclude", ".libs", "/repo/", tmp + "/"], check=True)
            r = subprocess.run(["patch", "-p1", "-s", "-d", tmp, "-i", os.path.join(a.dir, n)],
                               stdout=subprocess.PIPE, stderr=subprocess.STDOUT, universal_newlines=True)
            if r.returncode != 0:
                print("%s: patch does not apply: %s" % (n, r.stdout[-300:]))
                bad[0] += 1
                return

            def one(p):
                r = subprocess.run([os.path.join(VERIF, "check"), p, "--tier", a.tier, "--repo", tmp],
                                   stdout=subprocess.PIPE, stderr=subprocess.STDOUT, universal_newlines=True)
                return p, r.returncode, r.stdout
            # first check extracts the facts; the others reuse the cache
            res = [one(props[0])]
            with ThreadPoolExecutor(4) as ex:
                res += list(ex.map(one, props[1:]))
            noisy = [(p, rc, out) for p, rc, out in res if rc != 0]
            lines = ["%-28s %s" % (n, "silent" if not noisy else "FALSE ALARM: " + ", ".join("%s(rc=%d)" % (p, rc) for p, rc, _ in noisy))]
            for p, rc, out in noisy:
                bad[0] += 1
                for l in [l for l in out.splitlines() if ("[%s." % p) in l or "ANALYSIS-BROKEN" in l or "Traceback" in l or "Error" in l][:4]:
                    lines.append("      %s" % l[:300])
            print("\n".join(lines), flush=True)
            txt = open(os.path.join(a.dir, n)).read()
            results[n] = {"files": sorted(set(l[6:] for l in txt.splitlines() if l.startswith("+++ b/"))),
                          "changed_lines": sum(1 for l in txt.splitlines() if (l.startswith("+") or l.startswith("-")) and
                                               not l.startswith("+++") and not l.startswith("---")),
                          "checks_run": len(res), "alarms": ["%s(rc=%d)" % (p, rc) for p, rc, _ in noisy]}
        finally:
            shutil.rmtree(tmp, ignore_errors=True)
            import hashlib
            shutil.rmtree(os.path.join(VERIF, "build", "facts", hashlib.sha256(tmp.encode()).hexdigest()[:8]), ignore_errors=True)
    with ThreadPoolExecutor(a.jobs) as ex:
        list(ex.map(do, names))
    if a.record:
        import json
        json.dump(results, open(os.path.join(a.dir, "RESULTS.json"), "w"), indent=1, sort_keys=True)
    return 1 if bad[0] else 0


if __name__ == "__main__":
    sys.exit(main())
