#!/usr/bin/env python3
"""Regenerate /verif/MANIFEST.json from the rule modules (rules/Cxx.py)."""
import importlib
import json
import os
import sys

VERIF = os.path.dirname(os.path.dirname(os.path.abspath(__file__)))
sys.path.insert(0, VERIF)

NOT_APPLICABLE = {
    # property id -> reason (only for properties with no rule module)
}

PENDING = "no structural rule of DESIGN.md section 3 is armed for this property in this commit; it is not claimed"


def main():
    props = [json.loads(l) for l in open(os.path.join(VERIF, "properties.jsonl"))]
    checks, na = [], []
    for p in props:
        pid = p["id"]
        if not os.path.exists(os.path.join(VERIF, "rules", pid + ".py")):
            na.append({"property_id": pid, "reason": NOT_APPLICABLE.get(pid, PENDING)})
            continue
        mod = importlib.import_module("rules." + pid)
        rules = getattr(mod, "RULES_DOC", {})
        checks.append({
            "property_id": pid,
            "quick_cmd": "./check %s --tier quick" % pid,
            "thorough_cmd": "./check %s --tier thorough" % pid,
            "evidence_file": "/verif/evidence/%s.json" % pid,
            "replay_cmd_template": "./check %s --replay {path}" % pid,
            "engine": "abtverif",
            "level_claimed": {
                "category": "other",
                "text": ("Static decision, on every CFG path of the anchored functions in every parsed "
                         "configuration, of the structural necessary conditions listed in the evidence "
                         "(rules %s). A pass means each of these code-shape obligations is discharged on the "
                         "current source; it does not establish the run-time behaviour itself. %s" %
                         (", ".join(sorted(rules)), mod.EXPLANATION)),
                "design_ref": "DESIGN.md section 3, %s" % pid,
            },
            "level_note": ("Trusted: clang 14 front end and CFG builder, tools/abtfacts.cc, the abtverif engine and "
                           "the primitive tables (each wrapper summary is re-verified on every run). Not claimed: "
                           + "; ".join(getattr(mod, "DECLINED", [])) + ". Assumptions: "
                           + "; ".join(getattr(mod, "ASSUMPTIONS", []))),
            "technique": getattr(mod, "TECHNIQUE",
                                 "custom static analysis over clang CFG facts: lockset/typestate dataflow, "
                                 "path enumeration, dominance and sibling cross-checks"),
        })
    man = {
        "version": 1,
        "setup_cmd": "make -C /verif setup",
        "hooks": {
            "guard": "PMODELS_ARGOBOTS_VERIF",
            "enable": "no source hooks: the guard is only defined on the analysis front end's command line "
                      "(-DPMODELS_ARGOBOTS_VERIF=1); /repo builds unchanged",
            "baseline_off_cmd": "make -C /repo -j16 && make -C /repo/test check -j8",
            "source_commits": [],
            "add_only": True,
        },
        "engines": [{
            "name": "abtverif",
            "path": "/verif/abtverif",
            "serves_properties": [c["property_id"] for c in checks],
            "kind_free_text": "libTooling fact extractor (tools/abtfacts.cc) + Python dataflow/typestate/path analyses "
                              "with repository-specific rule tables (rules/*.py); purely static",
        }],
        "checks": checks,
        "notes": "Exit codes of ./check: 0 all obligations discharged (KNOWN-FINDING lines possible), 1 violation "
                 "(VIOLATION line), 2 analysis broken (anchor vanished / rule matched too few sites / parse failure).",
        "not_applicable": na,
    }
    with open(os.path.join(VERIF, "MANIFEST.json"), "w") as f:
        json.dump(man, f, indent=1)
    print("MANIFEST.json: %d checks, %d not applicable" % (len(checks), len(na)))


if __name__ == "__main__":
    main()
