#!/usr/bin/env python3
"""Debug aid for writing rules: print the canonical condition labels, stores and calls of a function.
usage: showfn.py <function> [--file F] [--repo DIR] [--variant v] [--paths field1,field2 call1,call2]"""
import argparse
import os
import sys

VERIF = os.path.dirname(os.path.dirname(os.path.abspath(__file__)))
sys.path.insert(0, VERIF)
from abtverif import build, facts, canon, cfg, seq  # noqa: E402

ap = argparse.ArgumentParser()
ap.add_argument("fn")
ap.add_argument("--file", default=None)
ap.add_argument("--repo", default=build.REPO)
ap.add_argument("--variant", default="default")
ap.add_argument("--fields", default="")
ap.add_argument("--calls", default="")
ap.add_argument("--paths", action="store_true")
a = ap.parse_args()
d, _, _ = build.extract(a.repo, a.variant)
P = facts.Program(d)
F = P.fn(a.fn, a.file)
print("%s (%s:%d) inlined helpers: %s" % (F.name, F.file, F.line, {k: v for k, v in P.inlined.items() if v}))
for bid in sorted(F.blocks, reverse=True):
    B = F.blocks[bid]
    if B.tc is not None:
        aj, at = cfg.cond_atom(F, B.tc, True)
        lab, flip = canon.cond(F, aj)
        print("  B%-3d %-12s if [%s]%s      raw: %s" % (bid, B.tk, lab, "  (true edge = label %s)" % (at != flip), F.render(B.tc)))
    for i in F.block_events(bid):
        nd = F.nodes[i]
        if nd.get("k") == "call":
            print("  B%-3d call %s(%s)" % (bid, nd.get("fn") or "(*%s)" % canon.expr(F, nd["fe"]), ", ".join(canon.expr(F, x) for x in nd["a"])))
        elif nd.get("k") == "bin" and nd.get("asg"):
            print("  B%-3d store %s %s %s" % (bid, F.fieldpath(nd["lh"]), nd["op"], canon.expr(F, nd["rh"])))
if a.paths:
    sel = seq.Sel(calls=set(x for x in a.calls.split(",") if x) or (lambda fn: True), fields=set(x for x in a.fields.split(",") if x),
                  conds=lambda t: True, canon=True, rets=True)
    for toks, kind, rv, rtxt in seq.sequences(F, sel, max_len=200):
        print("  PATH %s -> %s %s" % (seq.show(toks), kind, rv if rv is not None else rtxt))
