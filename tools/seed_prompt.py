#!/usr/bin/env python3
"""Print the prompt given to an independent seeding sub-agent for one property
(only the property text and its own scratch worktree; nothing from /verif)."""
import json, sys
pid = sys.argv[1]
wt = sys.argv[2]
extra = sys.argv[3] if len(sys.argv) > 3 else ""
p = next(json.loads(l) for l in open('/verif/properties.jsonl') if json.loads(l)['id'] == pid)
print(f"""You are working on the Argobots C library (pmodels/argobots, a lightweight user-level threading runtime). Your private scratch copy is the git worktree at {wt} (already configured; build with `make -j8` in {wt}; run the existing test suite with `make -C test check -j8` in {wt}: all 119 tests pass today). Work ONLY inside {wt}. Do not read, list or write anything under /verif or /repo, and do not use any other directory of /tmp/seed.

Property under study ("{p['title']}"):
{p['statement']}
It is meant to hold {p['quantifier']['text']}.

Your task: produce TWO independent, realistic changes (call them A and B, using different mechanisms / different code sites) to the library sources under {wt}/src that each BREAK this property while
  1. still compiling without new warnings-as-errors,
  2. still passing the complete existing test suite (run `make -j8 && make -C test check -j8` at least twice with the change applied and confirm 0 failures), and
  3. needing something specific to manifest: a particular interleaving, a fault/failure at a particular point, a multi-step sequence of API calls, an unusual input/configuration, or two cooperating sites that each look fine alone. Do NOT produce a change that ordinary use would expose at once.
The change should look like a plausible developer slip (wrong ordering, dropped re-check, missing update on one path, off-by-one, weakened memory order, wrong variable, skipped cleanup on one path, ...), be small (a few lines), and not be sabotage such as emptying a function.

For each change also write a demonstration: a small C program using the public API (abt.h), or a shell script driving one, that FAILS (wrong result, assertion, crash, or hang detected by `timeout`) with the change applied and PASSES on the unmodified sources. If an interleaving is needed, you may provoke it with many iterations, several execution streams, sched_yield/usleep, or a deterministic sequence if one exists; say how reliable it is. Demos compile with e.g. `gcc -O1 -g demo.c -I{wt}/src/include -L{wt}/src/.libs -labt -lpthread -o demo` and run with `LD_LIBRARY_PATH={wt}/src/.libs ./demo`.

Deliverables (create the directories):
  {wt}/SEED/A/patch.diff   -- `git diff -- src` of change A alone (applies with `git apply` to a clean tree)
  {wt}/SEED/A/demo.c       -- (plus any helper files)
  {wt}/SEED/A/run.sh       -- builds the library in its current state if needed, builds and runs the demo against {wt}; exit 0 = property held, non-zero = violated (use `timeout` so a hang counts as a failure)
  {wt}/SEED/A/NOTES.md     -- what the change breaks and why, what it needs in order to manifest, exactly what you ran (commands) and what you observed with and without the change, test-suite results with the change
  and the same four files under {wt}/SEED/B/ for change B.
Verify each demo both ways yourself (with the change: fails; after `git checkout -- src` and rebuild: passes). When you are done leave the sources reverted (`git checkout -- src`), and reply with a short summary of A and B (files touched, mechanism, how reliably the demo fails). You have roughly 45 minutes; if you can only finish one solid change, deliver A alone and say so.{extra}""")
