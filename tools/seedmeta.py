#!/usr/bin/env python3
"""usage: seedmeta.py <seed id> <property> <needs...>   -- writes /verif/seeded/<id>/meta.json"""
import json, os, sys, subprocess
sid, prop, needs = sys.argv[1], sys.argv[2], " ".join(sys.argv[3:])
d = os.path.join("/verif/seeded", sid)
files = subprocess.run(["grep", "-h", "^+++ ", os.path.join(d, "patch.diff")], stdout=subprocess.PIPE,
                       universal_newlines=True).stdout.split("\n")
files = sorted(set(f[6:] for f in files if f.startswith("+++ b/")))
head = subprocess.run(["git", "-C", "/repo", "rev-parse", "--short", "HEAD"], stdout=subprocess.PIPE,
                      universal_newlines=True).stdout.strip()
meta = {
    "id": sid,
    "property": prop,
    "origin": "independent sub-agent given only the property text and a scratch worktree",
    "files_touched": files,
    "needs_to_manifest": needs,
    "confirmed_by": "tools/confirm_seed.sh in a fresh worktree of /repo HEAD %s: patch applies, library builds, "
                    "the 119 existing tests pass with the change, demo (run.sh) fails with the change and passes "
                    "without it" % head,
    "demo_with_change": open(os.path.join(d, "demo_with_change.txt")).read()[-600:] if os.path.exists(os.path.join(d, "demo_with_change.txt")) else "",
    "detected_by": [],
}
old = os.path.join(d, "meta.json")
if os.path.exists(old):
    meta["detected_by"] = json.load(open(old)).get("detected_by", [])
json.dump(meta, open(old, "w"), indent=1)
print("wrote", old)
