#!/usr/bin/env python3
"""Apply each self-test mutant to a scratch copy of /repo/src, run the expected
property's check (or the listed ones for negative mutants) and compare.
usage: selftest.py [mutant id substrings...]"""
import os, shutil, subprocess, sys, tempfile
VERIF = os.path.dirname(os.path.dirname(os.path.abspath(__file__)))
sys.path.insert(0, VERIF)
from tests.mutants import M


def run(m):
    tmp = tempfile.mkdtemp(prefix="selftest.", dir="/tmp")
    try:
        subprocess.run(["rsync", "-a", "--exclude", ".git", "--exclude", "test", "--exclude", "examples",
                        "--exclude", "*.o", "--exclude", "*.lo", "--exclude", ".libs", "/repo/", tmp + "/"], check=True)
        if m.get("revert"):
            d = subprocess.run(["git", "-C", "/repo", "show", m["revert"], "--", "src"], stdout=subprocess.PIPE,
                               universal_newlines=True).stdout
            r = subprocess.run(["patch", "-R", "-p1", "-s", "-d", tmp], input=d, stdout=subprocess.PIPE,
                               stderr=subprocess.STDOUT, universal_newlines=True)
            if r.returncode != 0:
                return "STALE (cannot revert %s: %s)" % (m["revert"], r.stdout[-200:])
            return _run_checks(m, tmp)
        if m.get("patch"):
            r = subprocess.run(["patch", "-p1", "-s", "-d", tmp, "-i", os.path.join(VERIF, m["patch"])], stdout=subprocess.PIPE,
                               stderr=subprocess.STDOUT, universal_newlines=True)
            if r.returncode != 0:
                return "STALE (patch does not apply: %s)" % r.stdout[-200:]
            return _run_checks(m, tmp)
        p = os.path.join(tmp, m["file"])
        s = open(p).read()
        if m.get("nth"):
            parts = s.split(m["old"])
            if len(parts) <= m["nth"]:
                return "STALE (old text occurs %d times)" % (len(parts) - 1)
            k = m["nth"]
            s2 = m["old"].join(parts[:k]) + m["new"] + m["old"].join(parts[k:])
        else:
            if s.count(m["old"]) != 1:
                return "STALE (old text occurs %d times)" % s.count(m["old"])
            s2 = s.replace(m["old"], m["new"])
        open(p, "w").write(s2)
        return _run_checks(m, tmp)
    finally:
        shutil.rmtree(tmp, ignore_errors=True)


def _run_checks(m, tmp):
    if True:
        # must still compile
        r = subprocess.run(["make", "-C", os.path.join(tmp, "src"), "-j16", "libabt.la"], stdout=subprocess.PIPE,
                           stderr=subprocess.STDOUT, universal_newlines=True)
        if r.returncode != 0:
            return "DOES-NOT-COMPILE"
        props = m["props"] or [m["expect"].split(".")[0]]
        out = []
        for prop in props:
            r = subprocess.run([os.path.join(VERIF, "check"), prop, "--repo", tmp], stdout=subprocess.PIPE,
                               stderr=subprocess.STDOUT, universal_newlines=True)
            fired = sorted(set(l.split("[")[1].split("]")[0] for l in r.stdout.splitlines()
                               if "] " in l and l.split("[")[-1].startswith(prop + ".") or ("[%s." % prop) in l))
            out.append((prop, r.returncode, fired))
        if m["expect"] is None:
            bad = [o for o in out if o[1] != 0]
            return "ok (silent)" if not bad else "FALSE-ALARM %s" % bad
        hit = any(m["expect"] in o[2] for o in out)
        return ("ok (fires %s)" % m["expect"]) if hit else "MISSED %s (got %s)" % (m["expect"], out)


def main():
    sel = sys.argv[1:]
    bad = 0
    for m in M:
        if sel and not any(s in m["id"] for s in sel):
            continue
        res = run(m)
        print("%-36s %s" % (m["id"], res))
        if not res.startswith("ok"):
            bad += 1
    return 1 if bad else 0


if __name__ == "__main__":
    sys.exit(main())
