#!/bin/bash
# usage: confirm_seed.sh <prop> <A|B> [src worktree of the agent] [id suffix to store under, default = variant]
# Confirms a seeded change independently in a fresh worktree of /repo HEAD:
#   patch applies, library builds, the existing suite passes, the demo fails with the
#   change and passes without it.  On success the seed is stored in /verif/seeded/<prop>-<v>/.
P="$1"; V="$2"; SRC="${3:-/tmp/seed/$P}/SEED/$V"
DV="${4:-$V}"
WT=/tmp/confirm/$P-$V
LOG=/tmp/confirm/$P-$V.log
mkdir -p /tmp/confirm; rm -f "$LOG"
[ -f "$SRC/patch.diff" ] || { echo "no patch at $SRC"; exit 2; }
/verif/tools/mkseedwt.sh "$WT" >>"$LOG" 2>&1 || { echo "worktree failed"; exit 2; }
cleanup() { git -C /repo worktree remove --force "$WT" >/dev/null 2>&1; git -C /repo worktree prune; }
cd "$WT"
if ! git apply "$SRC/patch.diff" >>"$LOG" 2>&1; then echo "RESULT $P-$V: patch does not apply to current HEAD"; cleanup; exit 1; fi
if ! make -j16 >>"$LOG" 2>&1; then echo "RESULT $P-$V: build fails"; cleanup; exit 1; fi
timeout 2400 make -C test check -j8 >"$LOG.suite" 2>&1
# a test that hangs with the change: stop what the timeout left behind (only processes of this worktree)
pkill -9 -f "$WT/test/" >/dev/null 2>&1
PASS=$(grep -E "^# PASS:" "$LOG.suite" | awk '{s+=$3} END{print s+0}')
FAIL=$(grep -E "^# (FAIL|ERROR|XPASS):" "$LOG.suite" | awk '{s+=$3} END{print s+0}')
echo "suite with change: pass=$PASS fail=$FAIL" | tee -a "$LOG"
# demo with the change
mkdir -p "$WT/SEED/$V"; cp -r "$SRC"/* "$WT/SEED/$V"/
AGENTWT=$(dirname $(dirname "$SRC"))
sed -i "s|$AGENTWT|$WT|g" "$WT/SEED/$V"/*.sh
( cd "$WT/SEED/$V" && timeout 600 sh ./run.sh ) >"$LOG.demo_with" 2>&1; RC_WITH=$?
git checkout -- src; make -j16 >>"$LOG" 2>&1
( cd "$WT/SEED/$V" && timeout 600 sh ./run.sh ) >"$LOG.demo_without" 2>&1; RC_WITHOUT=$?
echo "demo rc with change: $RC_WITH, without: $RC_WITHOUT" | tee -a "$LOG"
OK=0
if [ "$PASS" -ge 119 ] && [ "$FAIL" -eq 0 ] && [ "$RC_WITH" -ne 0 ] && [ "$RC_WITHOUT" -eq 0 ]; then OK=1; fi
if [ $OK -eq 1 ]; then
  DEST=/verif/seeded/$P-$DV; rm -rf "$DEST"; mkdir -p "$DEST"
  cp "$SRC/patch.diff" "$DEST/patch.diff"
  for f in "$SRC"/*; do case "$f" in *.log|*/demo|*.o) ;; *) cp -r "$f" "$DEST"/ ;; esac; done
  tail -5 "$LOG.demo_with" > "$DEST/demo_with_change.txt"; tail -3 "$LOG.demo_without" > "$DEST/demo_without_change.txt"
  echo "RESULT $P-$V: CONFIRMED (suite $PASS/0, demo rc $RC_WITH vs $RC_WITHOUT) -> $DEST"
else
  echo "RESULT $P-$V: NOT CONFIRMED (suite pass=$PASS fail=$FAIL, demo rc with=$RC_WITH without=$RC_WITHOUT); logs $LOG*"
fi
cleanup
exit $((1-OK))
