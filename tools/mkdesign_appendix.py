#!/usr/bin/env python3
"""Regenerate the generated appendices of DESIGN.md (between the BEGIN/END GENERATED markers):
the armed rules per property and the seeded-change detection matrix."""
import importlib
import json
import os
import re
import sys

VERIF = os.path.dirname(os.path.dirname(os.path.abspath(__file__)))
sys.path.insert(0, VERIF)


def rules_appendix():
    out = []
    for i in range(1, 21):
        pid = "C%02d" % i
        mod = importlib.import_module("rules." + pid)
        out.append("**%s** (thorough-tier configurations: default%s)" % (pid, "".join(", " + v for v in getattr(mod, "VARIANTS", []))))
        for r, doc in sorted(mod.RULES_DOC.items(), key=lambda kv: (kv[0][0] != "A", kv[0][0], int(re.sub(r"\D", "", kv[0]) or 0))):
            if r.startswith("X"):
                continue
            out.append("- `%s.%s` %s" % (pid, r, doc))
        out.append("- not claimed: " + "; ".join(mod.DECLINED))
        out.append("")
    return "\n".join(out)


def seeds_appendix():
    d = os.path.join(VERIF, "seeded")
    rows = []
    for s in sorted(os.listdir(d)):
        mp = os.path.join(d, s, "meta.json")
        if not os.path.exists(mp):
            continue
        m = json.load(open(mp))
        det = []
        for x in m.get("detected_by", []):
            rules = sorted(set(re.findall(r"\[(C\d+\.[A-Z]\d+)\]", " ".join(x.get("reports", [])))))
            det.append("%s (%s)" % (x["check"], ", ".join(rules)) if rules else x["check"])
        rows.append("| %s | %s | %s | %s | %s |" % (s, m.get("property", ""), ", ".join(os.path.basename(f) for f in m.get("files_touched", [])),
                                                    m.get("needs_to_manifest", "").replace("|", "/")[:170], "; ".join(det) or "**missed**"))
    head = "| seed | breaks | files | needs, in order to manifest | detected by (rules) |\n|---|---|---|---|---|\n"
    return head + "\n".join(rows)


def neutral_appendix():
    rp = os.path.join(VERIF, "neutral", "RESULTS.json")
    if not os.path.exists(rp):
        return "(run `tools/neutralcheck.py --record`)"
    r = json.load(open(rp))
    rows = ["| patch | files | changed lines | checks run | result |", "|---|---|---|---|---|"]
    for n, d in sorted(r.items()):
        rows.append("| %s | %s | %d | %d | %s |" % (n, ", ".join(os.path.basename(f) for f in d["files"]), d["changed_lines"],
                                                  d["checks_run"], "silent" if not d["alarms"] else "**ALARM** " + ", ".join(d["alarms"])))
    silent = sum(1 for d in r.values() if not d["alarms"])
    return "Last recorded run (`tools/neutralcheck.py --record`): %d of %d patches silent in all checks.\n\n%s" % (
        silent, len(r), "\n".join(rows))


def main():
    p = os.path.join(VERIF, "DESIGN.md")
    s = open(p).read()
    for tag, text in (("RULES", rules_appendix()), ("SEEDS", seeds_appendix()), ("NEUTRAL", neutral_appendix())):
        b, e = "<!-- BEGIN GENERATED %s -->" % tag, "<!-- END GENERATED %s -->" % tag
        if b in s and e in s:
            s = s[:s.index(b) + len(b)] + "\n" + text + "\n" + s[s.index(e):]
        else:
            print("marker %s missing" % tag)
    open(p, "w").write(s)
    print("DESIGN.md appendices regenerated")


if __name__ == "__main__":
    main()
