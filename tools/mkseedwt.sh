#!/bin/sh
# usage: mkseedwt.sh <dir>   -- scratch git worktree of /repo with the generated build system copied in
set -e
D="$1"
git -C /repo worktree add --detach "$D" HEAD >/dev/null 2>&1
rsync -a --exclude .git /repo/ "$D"/
# libtool wrappers copied from /repo point at /repo/src/.libs: force a full rebuild inside the worktree
( cd "$D" && make -s clean >/dev/null 2>&1 && make -s -C test clean >/dev/null 2>&1 || true )
( cd "$D" && git status --short | head -5 )
echo "worktree ready: $D"
