#!/usr/bin/env python3
"""Run the implemented checks against every seeded change (in a scratch copy of
/repo, removed afterwards) and print/update which checks catch which change.

usage: seedcheck.py [seed ids...] [--props C05,C19] [--tier quick] [--update]"""
import argparse
import json
import os
import shutil
import subprocess
import sys
import tempfile

VERIF = os.path.dirname(os.path.dirname(os.path.abspath(__file__)))


def main():
    os.environ["VERIF_KEEP_CACHE"] = "1"   # one extraction per scratch copy; removed below
    ap = argparse.ArgumentParser()
    ap.add_argument("seeds", nargs="*")
    ap.add_argument("--props", default=None)
    ap.add_argument("--tier", default="quick")
    ap.add_argument("--update", action="store_true", help="record detected_by in meta.json")
    ap.add_argument("--dir", default=os.path.join(VERIF, "seeded"))
    ap.add_argument("--jobs", type=int, default=3)
    a = ap.parse_args()
    seeds = a.seeds or sorted(d for d in os.listdir(a.dir) if os.path.exists(os.path.join(a.dir, d, "patch.diff")))
    props = a.props.split(",") if a.props else sorted(
        f[:-3] for f in os.listdir(os.path.join(VERIF, "rules")) if f.startswith("C") and f.endswith(".py"))
    summary = {}

    def do(s):
        sd = os.path.join(a.dir, s)
        tmp = tempfile.mkdtemp(prefix="seedchk.", dir="/tmp")
        try:
            subprocess.run(["rsync", "-a", "--exclude", ".git", "--exclude", "test", "--exclude", "examples",
                            "--exclude", "*.o", "--exclude", "*.lo", "--exclude", ".libs", "/repo/", tmp + "/"],
                           check=True)
            r = subprocess.run(["patch", "-p1", "-s", "-d", tmp, "-i", os.path.join(sd, "patch.diff")],
                               stdout=subprocess.PIPE, stderr=subprocess.STDOUT, universal_newlines=True)
            if r.returncode != 0:
                print("%s: patch does not apply: %s" % (s, r.stdout[-300:]))
                summary[s] = None
                return
            hits = []
            for p in props:
                r = subprocess.run([os.path.join(VERIF, "check"), p, "--tier", a.tier, "--repo", tmp],
                                   stdout=subprocess.PIPE, stderr=subprocess.STDOUT, universal_newlines=True)
                if r.returncode == 1:
                    lines = [l for l in r.stdout.splitlines() if ("[%s." % p) in l]
                    hits.append((p, lines))
                elif r.returncode == 2:
                    lines = [l for l in r.stdout.splitlines() if "ANALYSIS-BROKEN" in l]
                    hits.append((p + "(broken)", lines))
            summary[s] = hits
            out = ["%-10s %s" % (s, ", ".join(h[0] for h in hits) or "-- MISSED --")]
            for p, lines in hits:
                for l in lines[:3]:
                    out.append("      %s" % l[:260])
            print("\n".join(out), flush=True)
            if a.update:
                mp = os.path.join(sd, "meta.json")
                if os.path.exists(mp):
                    m = json.load(open(mp))
                    m["detected_by"] = [{"check": p, "reports": lines[:3]} for p, lines in hits]
                    m["checked_with"] = "tools/seedcheck.py (patch applied to a scratch copy of /repo; ./check <prop> --repo <copy>)"
                    json.dump(m, open(mp, "w"), indent=1)
        finally:
            shutil.rmtree(tmp, ignore_errors=True)
            import hashlib
            shutil.rmtree(os.path.join(VERIF, "build", "facts", hashlib.sha256(tmp.encode()).hexdigest()[:8]), ignore_errors=True)
    from concurrent.futures import ThreadPoolExecutor
    with ThreadPoolExecutor(a.jobs) as ex:
        list(ex.map(do, seeds))
    return 0


if __name__ == "__main__":
    sys.exit(main())
